"""Contexts family: ONE named type used under ONE component name in several different contexts (C01, C03, C04, C19).

The compiler caches compiled types by (module, type name, component name) and derives every use from (copies of) the cached
object.  This family writes

    Key ::= [own tag] <base>        K2 ::= Key   K3 ::= K2            -- base: strings, INTEGER, BOOLEAN, ENUMERATED, CHOICE, SEQUENCE
    T1 ::= CHOICE   { key Ref, z NULL }                                -- untagged alternative
    T2 ::= SEQUENCE { key [0] Ref, z NULL }                            -- tag of the module's default kind / IMPLICIT / EXPLICIT
    T3 ::= SEQUENCE { key Ref DEFAULT v, z NULL }    T4 ::= SEQUENCE { key Ref, z NULL }    T5 ::= SET { key Ref OPTIONAL, z NULL } ...

in a random order under every tagging environment, and checks every container type
  * DER octets against the independent X.690 encoder of harness/tagged.py (C03; the reference and its in-place copy are one type: C19),
  * every codec against the SAME container compiled alone in a module of its own and against the in-place spelling (C19, C01),
  * BER re-serialisations built from the independent encoder's shape, certified by the independent reader (C04).
A second scenario is an alias of a recursive type used under two component names."""
from . import tagged
from .codecs import py_equal

NULL = {'k': 'null'}
INT = {'k': 'int', 'lo': None, 'hi': None, 'ext': False, 'con': False}
BASES = [
    ('UTF8String', {'k': 'str', 'kind': 'UTF8String', 'size': None}, ['', 'a', 'héllo wörld', 'x' * 130], ('dflt', '"dflt"')),
    ('IA5String', {'k': 'str', 'kind': 'IA5String', 'size': None}, ['', 'abc', 'y' * 200], ('ia5', '"ia5"')),
    ('OCTET STRING', {'k': 'octs', 'size': None}, [b'', b'\x00', bytes(range(10)), bytes(300)], (b'\xab\xcd', "'ABCD'H")),
    ('BIT STRING', {'k': 'bits', 'size': None}, [(b'', 0), (b'\x80', 1), (b'\xa5\x80', 9), (bytes(20), 160)], ((b'\xa0', 3), "'101'B")),
    ('INTEGER', INT, [0, 3, -1, 127, 128, -129, 2 ** 40], (3, '3')),
    ('BOOLEAN', {'k': 'bool'}, [True, False], (True, 'TRUE')),
    ('ENUMERATED { a(0), b(1), c(5) }', {'k': 'enum', 'root': [('a', 0), ('b', 1), ('c', 5)], 'ext': None}, ['a', 'b', 'c'], ('b', 'b')),
    ('CHOICE { p BOOLEAN, q INTEGER }', {'k': 'choice', 'root': [('p', {'k': 'bool'}), ('q', dict(INT))], 'ext': None}, [('p', True), ('q', -5)], None),
    ('SEQUENCE { v INTEGER, w BOOLEAN OPTIONAL }',
     {'k': 'seq', 'root': [{'name': 'v', 't': dict(INT), 'opt': False, 'default': None}, {'name': 'w', 't': {'k': 'bool'}, 'opt': True, 'default': None}], 'ext': None},
     [{'v': 1}, {'v': -300, 'w': True}], None),
]
OWN_TAGS = [None, None, None, ('', 1, 'EXPLICIT'), ('', 2, 'IMPLICIT'), ('APPLICATION', 3, ''), ('', 4, '')]
NAME_ORDERS = [('Zeta', 'Alpha', 'Mid', 'Beta'), ('T1', 'T2', 'T3', 'T4'), ('Req', 'Ind', 'Cnf', 'Rsp'), ('D', 'C', 'B', 'A')]
CONTAINERS = ['choice', 'seq-tag', 'seq-tag-explicit', 'seq-default', 'seq-plain', 'seq-opt', 'set', 'other-name']


def tag_txt(tag):
    cls, num, mode = tag
    return '[%s%d] %s' % (cls + ' ' if cls else '', num, mode + ' ' if mode else '')


def member(name, t, opt=False, default=None, tag=None):
    m = {'name': name, 't': t, 'opt': opt, 'default': default}
    if tag:
        m['tag'] = tag
    return m


def build(rng):
    base_txt, base, values, dflt = rng.choice(BASES)
    own = rng.choice(OWN_TAGS)
    if own and base['k'] == 'choice' and own[2] == 'IMPLICIT':
        own = ('', 2, '')
    header = rng.choice(['', 'EXPLICIT TAGS', 'IMPLICIT TAGS', 'IMPLICIT TAGS', 'AUTOMATIC TAGS'])
    mm = 'EXPLICIT' if header in ('', 'EXPLICIT TAGS') else 'IMPLICIT'
    T = dict(base)
    if header == 'AUTOMATIC TAGS' and T['k'] == 'choice':         # the definition of Key is tagged automatically as well
        T['root'] = [(n_, dict(a, alt_tag=('', i, ''))) for i, (n_, a) in enumerate(T['root'])]
    if header == 'AUTOMATIC TAGS' and T['k'] == 'seq':
        T['root'] = [dict(m, tag=('', i, '')) for i, m in enumerate(T['root'])]
    if own:
        T['own_tag'] = own
    chain = rng.choice([0, 0, 1, 2])
    ref = ['Key', 'K2', 'K3'][chain]
    defs = ['Key ::= %s%s' % (tag_txt(own) if own else '', base_txt)] + ['K2 ::= Key', 'K3 ::= K2'][:chain]
    inline_txt = '%s%s' % (tag_txt(own) if own else '', base_txt)
    kinds = rng.sample(CONTAINERS, rng.choice([2, 3, 3, 4]))
    if dflt is None:
        kinds = [k for k in kinds if k not in ('seq-default', 'other-name')] or ['seq-plain', 'choice']
    names = list(rng.choice(NAME_ORDERS))[:len(kinds)]
    conts = []
    for name, kind in zip(names, kinds):
        z = member('z', dict(NULL))
        if kind == 'choice':
            ast = {'k': 'choice', 'root': [('key', dict(T)), ('z', dict(NULL))], 'ext': None}
            body = 'CHOICE { key %s, z NULL }'
            vals = [('key', v) for v in values] + [('z', None)]
        elif kind in ('seq-tag', 'seq-tag-explicit'):
            mode = 'EXPLICIT' if kind == 'seq-tag-explicit' else rng.choice(['', '', 'IMPLICIT'])
            if T['k'] == 'choice' and mode == 'IMPLICIT':
                mode = ''
            tg = (rng.choice(['', '', 'APPLICATION', 'PRIVATE']), rng.choice([0, 3, 30, 31, 200]), mode)
            opt = rng.random() < 0.5
            ast = {'k': 'seq', 'root': [member('key', dict(T), opt=opt, tag=tg), z], 'ext': None}
            body = 'SEQUENCE { key ' + tag_txt(tg) + '%s' + (' OPTIONAL' if opt else '') + ', z NULL }'
            vals = [{'key': v, 'z': None} for v in values] + ([{'z': None}] if opt else [])
        elif kind == 'seq-default':
            ast = {'k': 'seq', 'root': [member('key', dict(T), default=dflt[0]), z], 'ext': None}
            body = 'SEQUENCE { key %s DEFAULT ' + dflt[1] + ', z NULL }'
            vals = [{'key': v, 'z': None} for v in values + [dflt[0]]] + [{'z': None}]
        elif kind == 'seq-plain':
            ast = {'k': 'seq', 'root': [member('key', dict(T)), z], 'ext': None}
            body = 'SEQUENCE { key %s, z NULL }'
            vals = [{'key': v, 'z': None} for v in values + ([dflt[0]] if dflt else [])]
        elif kind == 'seq-opt':
            ast = {'k': 'seq', 'root': [member('key', dict(T), opt=True), z], 'ext': None}
            body = 'SEQUENCE { key %s OPTIONAL, z NULL }'
            vals = [{'key': v, 'z': None} for v in values] + [{'z': None}]
        elif kind == 'set' and header != 'AUTOMATIC TAGS':
            # (per / uper / oer cannot order the untagged components of a SET outside AUTOMATIC TAGS: a recorded limit, not this family's business)
            ast = {'k': 'set', 'root': [member('key', dict(T), opt=True, tag=('', 6, '')), member('z', dict(NULL), tag=('', 7, ''))], 'ext': None}
            body = 'SET { key [6] %s OPTIONAL, z [7] NULL }'
            vals = [{'key': v, 'z': None} for v in values] + [{'z': None}]
        elif kind == 'set':
            ast = {'k': 'set', 'root': [member('key', dict(T), opt=True), z], 'ext': None}
            body = 'SET { key %s OPTIONAL, z NULL }'
            vals = [{'key': v, 'z': None} for v in values] + [{'z': None}]
        else:
            ast = {'k': 'seq', 'root': [member('alt', dict(T), default=dflt[0], tag=('', 9, '')), member('key', dict(T)), z], 'ext': None}
            body = 'SEQUENCE { alt [9] %s DEFAULT ' + dflt[1] + ', key %s, z NULL }'
            vals = [{'alt': a, 'key': v, 'z': None} for v in values[:3] + [dflt[0]] for a in (dflt[0], values[0])]
        has_tag = any(m.get('tag') for m in ast['root']) if ast['k'] != 'choice' else False
        if header == 'AUTOMATIC TAGS' and not has_tag:
            # X.680 24.7 / 28.3: automatic tagging [0], [1], ... (IMPLICIT, EXPLICIT for a CHOICE type)
            if ast['k'] == 'choice':
                ast['root'] = [(n, dict(a, alt_tag=('', i, ''))) for i, (n, a) in enumerate(ast['root'])]
            else:
                for i, m in enumerate(ast['root']):
                    m['tag'] = ('', i, '')
        conts.append({'name': name, 'kind': kind, 'ast': ast, 'body': body, 'values': vals})
    head = 'M DEFINITIONS %s%s::= BEGIN\n' % (header, ' ' if header else '')
    lines = ['%s ::= %s' % (c['name'], c['body'].replace('%s', ref)) for c in conts]
    key_first = rng.random() < 0.5
    full = head + '\n'.join((defs if key_first else []) + lines + ([] if key_first else defs)) + '\nEND\n'
    for c in conts:
        c['alone'] = head + '\n'.join(defs + ['%s ::= %s' % (c['name'], c['body'].replace('%s', ref))]) + '\nEND\n'
        # the definition written in place is the same type only when Key has no tag of its own (a second tag in front of a tagged
        # type is not in asn1tools' grammar, and a hand-written tag switches automatic tagging off for the container)
        c['inline'] = None if own else head + '%s ::= %s' % (c['name'], c['body'].replace('%s', inline_txt)) + '\nEND\n'
    return {'full': full, 'conts': conts, 'mm': mm, 'header': header, 'base': base_txt, 'own': own, 'untagged_choice_in_choice': T['k'] == 'choice' and not own}


REC_REF = ('M DEFINITIONS %s ::= BEGIN\nNode ::= SEQUENCE { left Child OPTIONAL, right Child OPTIONAL, v INTEGER (0..255) }\nChild ::= Node\n'
           'Pair ::= SEQUENCE { first Child, second Child OPTIONAL }\nEND\n')
REC_INL = ('M DEFINITIONS %s ::= BEGIN\nNode ::= SEQUENCE { left Node OPTIONAL, right Node OPTIONAL, v INTEGER (0..255) }\n'
           'Pair ::= SEQUENCE { first Node, second Node OPTIONAL }\nEND\n')
REC_VALUES = [('Node', {'v': 1}), ('Node', {'left': {'v': 2}, 'v': 1}), ('Node', {'right': {'v': 3}, 'v': 1}), ('Node', {'left': {'v': 2}, 'right': {'v': 3}, 'v': 1}),
              ('Node', {'left': {'left': {'v': 4}, 'right': {'v': 5}, 'v': 2}, 'right': {'left': {'v': 6}, 'v': 3}, 'v': 1}),
              ('Pair', {'first': {'v': 7}}), ('Pair', {'first': {'left': {'v': 8}, 'v': 7}, 'second': {'right': {'v': 9}, 'v': 0}})]


def outcome(r, text_codec=False):
    if r[0] == 'ok':
        return ('ok', r[1])
    return ('err', r[1].split(':')[0] if not r[1].startswith('Foreign') else r[1])


def compare_specs(sink, impl, codec, what, text_a, text_b, name, values, label):
    """the same type in two spellings of the specification: identical encode outcome, identical decode outcome"""
    sa, a = impl.compile_text(text_a, codec)
    sb, b = impl.compile_text(text_b, codec)
    if sa != 'ok' or sb != 'ok':
        sink.count('ctxfam.compile.%s.%s' % (codec, sa if sa != 'ok' else sb))
        if (sa == 'ok') != (sb == 'ok'):
            sink.violation('%s: a type compiles in one spelling of the specification (%s) and not in the other' % (codec, label),
                           {'codec': codec, 'spelling_a': text_a, 'spelling_b': text_b, 'a': sa, 'b': sb, 'error': repr(a if sa != 'ok' else b)[:300]})
        return None
    for v in values:
        ra, rb = impl.encode(a, name, v), impl.encode(b, name, v)
        sink.case((text_a, text_b, name, repr(v), codec))
        sink.count('ctxfam.%s.%s.%s' % (what, codec, ra[0] if ra[0] == 'ok' else ra[1].split(':')[0]))
        if outcome(ra) != outcome(rb):
            sink.violation('%s: one type, two spellings of the specification (%s): the encodings differ' % (codec, label),
                           {'codec': codec, 'spelling_a': text_a, 'spelling_b': text_b, 'type': name, 'value': repr(v), 'a': repr(outcome(ra))[:300], 'b': repr(outcome(rb))[:300]})
            continue
        if ra[0] == 'ok' and codec != 'gser':
            da, db = impl.decode(a, name, ra[1]), impl.decode(b, name, ra[1])
            if outcome(da) != outcome(db):
                sink.violation('%s: one type, two spellings of the specification (%s): decoding differs' % (codec, label),
                               {'codec': codec, 'spelling_a': text_a, 'spelling_b': text_b, 'type': name, 'data': repr(ra[1])[:200], 'a': repr(da)[:300], 'b': repr(db)[:300]})
    return a


def run(sink, prop, rng, n, impl, codecs):
    """prop: 'C19' (spellings, all codecs given), 'C03' (der vs the independent encoder), 'C04' (ber variants), 'C01' (round trips)"""
    for case in range(n):
        fam = build(rng)
        for c in fam['conts']:
            t, name = c['ast'], c['name']
            for codec in codecs:
                if codec == 'oer' and fam['untagged_choice_in_choice'] and c['kind'] == 'choice' and fam['header'] != 'AUTOMATIC TAGS':
                    sink.count('ctxfam.skip.oer-untagged-nested-choice')        # recorded finding C01-oer-untagged-nested-choice
                    continue
                if prop == 'C19':
                    compare_specs(sink, impl, codec, 'alone', fam['full'], c['alone'], name, c['values'], 'the type alone in its module / among the other types')
                    if c['inline']:
                        compare_specs(sink, impl, codec, 'inline', fam['full'], c['inline'], name, c['values'], 'type reference / its definition written in place')
                    continue
                st, spec = impl.compile_text(fam['full'], codec)
                if st != 'ok':
                    sink.count('ctxfam.compile.%s.%s' % (codec, st))
                    continue
                for v in c['values']:
                    sink.case((fam['full'], name, repr(v), codec, prop))
                    r = impl.encode(spec, name, v)
                    sink.count('ctxfam.%s.%s.%s' % (prop, codec, r[0] if r[0] == 'ok' else r[1].split(':')[0]))
                    info = {'codec': codec, 'module': fam['full'], 'type': name, 'value': repr(v)}
                    if r[0] != 'ok':
                        if prop == 'C01' and r[1] != 'Timeout':
                            sink.violation('%s: a value of a type that uses one named type in several contexts is rejected by the encoder (%s)' % (codec, r[1]), dict(info, error=r[2]))
                        continue
                    if prop == 'C03':
                        try:
                            want = tagged.der(t, v, fam['mm'])
                        except tagged.Skip:
                            continue
                        if r[1] != want:
                            sink.violation('der: output differs from the X.690 distinguished encoding (one named type used in several contexts)',
                                           dict(info, impl=r[1].hex(), x690=want.hex()))
                    elif prop == 'C01':
                        d = impl.decode(spec, name, r[1])
                        if d[0] != 'ok' and d[1] == 'Timeout':
                            continue
                        if d[0] != 'ok' or not py_equal(t, d[1], v):
                            sink.violation('%s: a value of a type that uses one named type in several contexts does not round-trip' % codec,
                                           dict(info, encoded=r[1].hex(), decoded=repr(d[1:])[:300]))
                    elif prop == 'C04':
                        own = impl.decode(spec, name, r[1])
                        if own[0] != 'ok' or not py_equal(t, own[1], v):
                            continue
                        tagged.variants_check(sink, impl, spec, name, t, v, fam['mm'], fam['full'], rng, per_kind=1, encoded=r[1])
        if prop == 'C19' and case % 8 == 0:
            hdr = rng.choice(['', 'AUTOMATIC TAGS', 'IMPLICIT TAGS'])
            for codec in codecs:
                for tname in ('Node', 'Pair'):
                    compare_specs(sink, impl, codec, 'rec', REC_REF % hdr, REC_INL % hdr, tname, [v for n_, v in REC_VALUES if n_ == tname],
                                  'another name for a recursive type / the recursive type itself')
