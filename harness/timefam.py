"""Time types (UTCTime, GeneralizedTime, DATE, TIME-OF-DAY, DATE-TIME) — outside the Lean universe, evaluated directly.

C01 / C02: round trip as the same instant (a naive datetime is UTC in this library: it is written with 'Z'), the decoded value is
accepted by the encoder and re-encoding reproduces the octets.  C03: the DER octets are compared with X.690 11.7 / 11.8 / 8.26
worked out here: UTCTime 'YYMMDDhhmmssZ', GeneralizedTime 'YYYYMMDDhhmmss[.f]Z' without trailing zeros (both converted to UTC),
DATE 'YYYYMMDD', TIME-OF-DAY 'hhmmss', DATE-TIME 'YYYYMMDDhhmmss'; as top-level types, as members of a SEQUENCE under AUTOMATIC
TAGS, as elements of a SEQUENCE OF and as alternatives of a CHOICE.

Domain: UTCTime years 1971..2048 (two-digit years: the window in which every reading agrees) without fractions; GeneralizedTime
years 2..9998 with fractions of 1..6 digits; offsets in whole minutes."""
import datetime as D
from . import impl

MODULE = ('T DEFINITIONS AUTOMATIC TAGS ::= BEGIN\n'
          'UT ::= UTCTime\nGT ::= GeneralizedTime\nDA ::= DATE\nTD ::= TIME-OF-DAY\nDT ::= DATE-TIME\n'
          'S ::= SEQUENCE { u UTCTime OPTIONAL, g GeneralizedTime OPTIONAL, d DATE OPTIONAL, t TIME-OF-DAY OPTIONAL, x DATE-TIME OPTIONAL, n INTEGER (0..7) }\n'
          'L ::= SEQUENCE OF GeneralizedTime\n'
          'C ::= CHOICE { u UTCTime, g GeneralizedTime, d DATE }\n'
          'END\n')
BIN = ['ber', 'der', 'per', 'uper', 'oer']
TXT = ['jer', 'xer']
CANON = ('der', 'per', 'uper', 'oer')


def tz(rng):
    x = rng.random()
    if x < 0.45:
        return None
    if x < 0.6:
        return D.timezone.utc
    minutes = rng.choice([60, 120, -300, 330, -210, 765, -720, 840, 1, -1, 59])
    return D.timezone(D.timedelta(minutes=minutes))


def utc_value(rng):
    y = rng.choice([1971, 1999, 2000, 2001, 2020, 2048, rng.randint(1971, 2048)])
    sec = rng.choice([0, 0, 1, 30, 59])
    return D.datetime(y, rng.choice([1, 2, 12, rng.randint(1, 12)]), rng.choice([1, 28, rng.randint(1, 28)]), rng.choice([0, 23, rng.randint(0, 23)]),
                      rng.choice([0, 59, rng.randint(0, 59)]), sec, tzinfo=tz(rng))


def gen_value(rng):
    y = rng.choice([2, 9, 99, 100, 999, 1000, 1999, 2020, 9998, rng.randint(2, 9998)])
    us = rng.choice([0, 0, 1, 10, 100, 1000, 100000, 120000, 123456, 500000, 999999, rng.randint(0, 999999)])
    sec = rng.choice([0, 0, 1, 30, 59])
    return D.datetime(y, rng.choice([1, 12, rng.randint(1, 12)]), rng.choice([1, 28, rng.randint(1, 28)]), rng.choice([0, 23, rng.randint(0, 23)]),
                      rng.choice([0, 59, rng.randint(0, 59)]), sec, us, tzinfo=tz(rng))


def date_value(rng):
    return D.date(rng.choice([1, 9, 999, 1000, 2020, 9999, rng.randint(1, 9999)]), rng.randint(1, 12), rng.randint(1, 28))


def tod_value(rng):
    return D.time(rng.choice([0, 23, rng.randint(0, 23)]), rng.choice([0, 59, rng.randint(0, 59)]), rng.choice([0, 59, rng.randint(0, 59)]))


def dt_value(rng):
    d, t = date_value(rng), tod_value(rng)
    return D.datetime(d.year, d.month, d.day, t.hour, t.minute, t.second)


def norm(v):
    """the instant (a naive datetime is UTC)"""
    if isinstance(v, D.datetime) and v.tzinfo is not None:
        return (v - v.utcoffset()).replace(tzinfo=None)
    if isinstance(v, dict):
        return {k: norm(x) for k, x in v.items()}
    if isinstance(v, list):
        return [norm(x) for x in v]
    if isinstance(v, tuple):
        return (v[0], norm(v[1]))
    return v


def content(kind, v):
    if kind == 'UT':
        v = norm(v)
        return ('%02d%02d%02d%02d%02d%02dZ' % (v.year % 100, v.month, v.day, v.hour, v.minute, v.second)).encode()
    if kind == 'GT':
        v = norm(v)
        s = '%04d%02d%02d%02d%02d%02d' % (v.year, v.month, v.day, v.hour, v.minute, v.second)
        if v.microsecond:
            s += ('.%06d' % v.microsecond).rstrip('0')
        return (s + 'Z').encode()
    if kind == 'DA':
        return ('%04d%02d%02d' % (v.year, v.month, v.day)).encode()
    if kind == 'TD':
        return ('%02d%02d%02d' % (v.hour, v.minute, v.second)).encode()
    if kind == 'DT':
        return ('%04d%02d%02d%02d%02d%02d' % (v.year, v.month, v.day, v.hour, v.minute, v.second)).encode()
    raise KeyError(kind)


UNIVERSAL = {'UT': b'\x17', 'GT': b'\x18', 'DA': b'\x1f\x1f', 'TD': b'\x1f\x20', 'DT': b'\x1f\x21'}


def tlv(tag, body):
    n = len(body)
    if n < 128:
        return tag + bytes([n]) + body
    k = (n.bit_length() + 7) // 8
    return tag + bytes([0x80 | k]) + n.to_bytes(k, 'big') + body


S_MEMBERS = [('u', 'UT'), ('g', 'GT'), ('d', 'DA'), ('t', 'TD'), ('x', 'DT')]


def der_expected(name, v):
    if name in UNIVERSAL:
        return tlv(UNIVERSAL[name], content(name, v))
    if name == 'S':
        body = b''
        for i, (m, kind) in enumerate(S_MEMBERS):
            if m in v:
                body += tlv(bytes([0x80 + i]), content(kind, v[m]))
        body += tlv(b'\x85', bytes([v['n']]))
        return tlv(b'\x30', body)
    if name == 'L':
        return tlv(b'\x30', b''.join(tlv(b'\x18', content('GT', x)) for x in v))
    if name == 'C':
        i = {'u': 0, 'g': 1, 'd': 2}[v[0]]
        return tlv(bytes([0x80 + i]), content({'u': 'UT', 'g': 'GT', 'd': 'DA'}[v[0]], v[1]))
    raise KeyError(name)


GEN = {'UT': utc_value, 'GT': gen_value, 'DA': date_value, 'TD': tod_value, 'DT': dt_value}


def cases(rng, n):
    out = []
    for _ in range(n):
        for k in GEN:
            out.append((k, GEN[k](rng)))
        v = {'n': rng.randint(0, 7)}
        for m, kind in S_MEMBERS:
            if rng.random() < 0.6:
                v[m] = GEN[kind](rng)
        out.append(('S', v))
        out.append(('L', [gen_value(rng) for _ in range(rng.choice([0, 1, 2, 3]))]))
        a = rng.choice(['u', 'g', 'd'])
        out.append(('C', (a, GEN[{'u': 'UT', 'g': 'GT', 'd': 'DA'}[a]](rng))))
    # regression vector of a repaired defect: years before 1000 (strftime('%Y') does not pad)
    out.append(('GT', D.datetime(1, 1, 1)))
    out.append(('GT', D.datetime(999, 12, 31, 23, 59, 59, 5)))
    return out


def run(sink, prop, rng, n, codecs):
    cs = cases(rng, n)
    for codec in codecs:
        st, spec = impl.compile_text(MODULE, codec)
        if st != 'ok':
            sink.violation('%s: the time-type module does not compile (%s)' % (codec, st), {'codec': codec, 'module': MODULE, 'error': repr(spec)[:300]})
            continue
        for name, v in cs:
            sink.case(('timefam', name, repr(v), codec))
            info = {'codec': codec, 'module': MODULE, 'type': name, 'value': repr(v)}
            e = impl.encode(spec, name, v)
            sink.count('timefam.%s.%s' % (codec, e[0] if e[0] == 'ok' else e[1].split(':')[0]))
            if e[0] != 'ok':
                sink.violation('%s: a time value that passes the type checks cannot be encoded (%s)' % (codec, e[1]), dict(info, error=e[2]))
                continue
            info['encoded'] = e[1].hex() if codec in BIN else e[1].decode('utf-8', 'replace')
            if prop == 'C03':
                want = der_expected(name, v)
                if e[1] != want:
                    sink.violation('der: the octets of a time value are not the ones X.690 11.7 / 11.8 / 8.26 prescribe', dict(info, expected=want.hex()))
                continue
            d = impl.decode(spec, name, e[1])
            if d[0] != 'ok':
                sink.violation('%s: decode of own encoding of a time value failed (%s)' % (codec, d[1]), dict(info, error=d[2]))
                continue
            if norm(d[1]) != norm(v):
                sink.violation('%s: a time value does not round-trip (another instant comes back)' % codec, dict(info, decoded=repr(d[1])))
                continue
            e2 = impl.encode(spec, name, d[1])
            if e2[0] != 'ok':
                sink.violation('%s: the decoded time value is not accepted by the encoder (%s)' % (codec, e2[1]), dict(info, decoded=repr(d[1])))
            elif (codec in CANON or codec in TXT) and e2[1] != e[1]:
                sink.violation('%s: re-encoding the decoded time value gives other octets' % codec, dict(info, decoded=repr(d[1]), reencoded=e2[1].hex()))
