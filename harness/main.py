"""Entry point: python -m harness.main <Cxx> [--tier quick|thorough] [--replay file]"""
import argparse
import importlib
import os
import sys
import time
import traceback

from . import core


def main():
    import faulthandler
    import signal
    faulthandler.register(signal.SIGUSR1, all_threads=True)      # `kill -USR1 <pid>` prints where a run is (machinery diagnosis)
    ap = argparse.ArgumentParser()
    ap.add_argument('prop')
    ap.add_argument('--tier', default=os.environ.get('VERIF_TIER', 'quick'))
    ap.add_argument('--replay', default=None)
    ap.add_argument('--skip-stage-p', action='store_true')
    args = ap.parse_args()
    seed = int(os.environ.get('VERIF_SEED', '0') or 0)
    tier = 'thorough' if args.tier == 'thorough' else 'quick'
    prop = args.prop.upper()
    t0 = time.time()
    ctx = core.Ctx(prop, tier, seed)
    mod = importlib.import_module('harness.props.' + prop.lower())
    level = getattr(mod, 'LEVEL', 'proof')
    if not args.skip_stage_p:
        sp = core.StageP(prop, tier)
        sp.run()
        ctx.stagep = sp
    try:
        if args.replay:
            mod.replay(ctx, args.replay)
        else:
            mod.run(ctx)
            from . import trcheck
            trcheck.run_for_property(ctx)
    except core.Timeout:
        print('machinery timeout', file=sys.stderr)
        sys.exit(2)
    except Exception:
        traceback.print_exc()
        print('machinery error (not a verdict)', file=sys.stderr)
        sys.exit(2)
    rc = core.finish(ctx, t0, level)
    sys.exit(rc)


if __name__ == '__main__':
    main()
