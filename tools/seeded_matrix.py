#!/usr/bin/env python3
"""usage: tools/seeded_matrix.py [seeded-id ...]   runs the property's own check (quick tier, seed 0, stage P skipped)
against a scratch tree with each seeded change applied and records the outcome in seeded/<id>/meta.json ('caught_by')."""
import json, os, re, subprocess, sys
HERE = os.path.dirname(os.path.dirname(os.path.abspath(__file__)))
ids = sys.argv[1:] or sorted(os.listdir(os.path.join(HERE, 'seeded')))
for sid in ids:
    d = os.path.join(HERE, 'seeded', sid)
    meta = json.load(open(os.path.join(d, 'meta.json')))
    prop = meta.get('property') or sid.split('_')[0]
    p = subprocess.run([os.path.join(HERE, 'tools', 'try_seeded.sh'), d, prop], stdout=subprocess.PIPE, stderr=subprocess.STDOUT, text=True)
    out = p.stdout
    m = re.search(r'rc=(\d+) violations=(\d+)', out)
    rc, nv = (int(m.group(1)), int(m.group(2))) if m else (-1, 0)
    nfi = 'no-failing-input-found' in out
    meta['caught_by'] = {'check': prop, 'tier': 'quick', 'seed': 0, 'exit': rc, 'violation_lines': nv,
                         'caught': rc == 1 and nv > 0, 'kind': ('broken correspondence, no failing input' if nfi else 'failing input replayed') if rc == 1 else 'not caught'}
    json.dump(meta, open(os.path.join(d, 'meta.json'), 'w'), indent=1)
    print(sid, prop, meta['caught_by'], flush=True)
