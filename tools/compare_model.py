import random, sys
import os; sys.path.insert(0, os.path.dirname(os.path.dirname(os.path.abspath(__file__))))
from harness.gen import *
from harness import impl, core
seed = int(sys.argv[1]) if len(sys.argv) > 1 else 1
N = int(sys.argv[2]) if len(sys.argv) > 2 else 300
codec = sys.argv[3] if len(sys.argv) > 3 else 'uper'
rng = random.Random(seed)
m = core.Model()
cases = []
for i in range(N):
    g = Gen(rng)
    t = g.type()
    txt = module_text([('A', t)])
    st, spec = impl.compile_text(txt, codec)
    if st != 'ok':
        print('compile', st, spec); continue
    for j in range(4):
        v = g.value(t)
        r = impl.encode(spec, 'A', v)
        cases.append((t, txt, v, r))
lines = ['enc\t%s\t%s\t%s' % (codec, ty_sx(t), val_sx(t, v)) for t, txt, v, r in cases]
ans = m.batch(lines)
bad = 0
dec_lines = []
dec_cases = []
from collections import Counter
cnt = Counter()
for (t, txt, v, r), a, l in zip(cases, ans, lines):
    if r[0] == 'ok':
        mine = 'ok ' + (r[1].hex() or '-')
    else:
        mine = 'err ' + ('Foreign' if r[1].startswith('Foreign') else r[1])
    cnt[mine.split()[0] + ' ' + (mine.split()[1] if mine.startswith('err') else '')] += 1
    if mine != a:
        bad += 1
        if bad < 6:
            print('MISMATCH\n', txt, '\n', v, '\n impl', mine, r[2:] , '\n model', a, '\n', l[:300])
    if r[0] == 'ok':
        dec_cases.append((t, txt, v, r[1]))
        dec_lines.append('dec\t%s\t%s\t%s' % (codec, ty_sx(t), r[1].hex() or '-'))
print('enc mismatches', bad, 'of', len(cases), cnt)
ans = m.batch(dec_lines)
bad = 0
for (t, txt, v, data), a, l in zip(dec_cases, ans, dec_lines):
    st, spec = impl.compile_text(txt, codec)
    d = impl.decode(spec, 'A', data)
    if d[0] == 'ok':
        try:
            mine = 'ok ' + val_sx(t, d[1])
        except Exception as e:
            mine = 'ok ?? %r' % (d[1],)
    else:
        mine = 'err ' + ('Foreign' if d[1].startswith('Foreign') else d[1])
    if mine != a:
        bad += 1
        if bad < 6:
            print('DEC MISMATCH\n', txt, '\n', v, data.hex(), '\n impl', mine[:300], d[2:], '\n model', a[:300])
print('dec mismatches', bad, 'of', len(dec_cases))
