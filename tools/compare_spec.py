"""Compare the real asn1tools PER / UPER encoders with the X.691 specification model S
(lean/Asn1Model/X691.lean, driver op `spec`).

usage: compare_spec.py <seed> <ntypes> <per|uper> [big]      random types (harness/gen.py), 4 values each
       compare_spec.py hand <per|uper>                        hand-made boundary cases

Rule checked for every case:
  S = ok bytes, dev = ()   ->  the real encoder MUST return exactly these bytes
  S = ok bytes, dev != ()  ->  counted per deviation name (and whether the bytes really differ)
  S = err (value is not a value of the type)  ->  counted; reported when the real encoder accepts
Any violation of the first rule is printed as UNEXPLAINED."""
import os
import random
import sys
from collections import Counter

sys.set_int_max_str_digits(0)
sys.path.insert(0, os.path.dirname(os.path.dirname(os.path.abspath(__file__))))
from harness.gen import *          # noqa
from harness import impl, core


def run(cases, codec, verbose=True):
    """cases: list of (type, value).  Returns (stats Counter, list of unexplained)."""
    m = core.Model()
    rows = []
    for t, v in cases:
        txt = module_text([('A', t)])
        st, spec = impl.compile_text(txt, codec)
        if st != 'ok':
            rows.append((t, v, txt, ('compile', st, str(spec)[:100])))
            continue
        rows.append((t, v, txt, impl.encode(spec, 'A', v, limit=60)))
    lines = ['spec\t%s\t%s\t%s' % (codec, ty_sx(t), val_sx(t, v)) for t, v, _, _ in rows]
    ans = m.batch(lines)
    stats = Counter()
    devs = Counter()
    devs_diff = Counter()
    witness = {}
    unexplained = []
    for (t, v, txt, r), a, l in zip(rows, ans, lines):
        stats['cases'] += 1
        if r[0] == 'compile':
            stats['compile-' + r[1]] += 1
            continue
        head, _, d = a.partition(' dev=(')
        names = d.rstrip(')').split()
        if r[0] == 'ok':
            mine = 'ok ' + (r[1].hex() or '-')
        else:
            mine = 'err ' + ('Foreign' if r[1].startswith('Foreign') else r[1])
        if r[0] == 'err' and r[1] == 'Timeout':
            stats['code timeout (skipped)'] += 1
            continue
        if head.startswith('err'):
            stats['S-rejects'] += 1
            if r[0] == 'ok':
                stats['S-rejects, code accepts'] += 1
                if verbose and stats['S-rejects, code accepts'] <= 3:
                    print('S-REJECTS', a, 'code', mine[:60], '\n  ', l[:400])
            continue
        if not names:
            if mine == head:
                stats['agree (dev=())'] += 1
            else:
                stats['UNEXPLAINED'] += 1
                unexplained.append((txt, v, mine, a, l))
        else:
            stats['deviation flagged'] += 1
            differs = mine != head
            if differs:
                stats['deviation flagged, bytes differ'] += 1
            for n in names:
                devs[n] += 1
                if differs:
                    devs_diff[n] += 1
                    if len(names) == 1 and (n not in witness or len(l) < len(witness[n][3])):
                        witness[n] = (txt, v, mine, l, head)
    if verbose:
        for u in unexplained[:8]:
            print('UNEXPLAINED\n', u[0], '\n value', repr(u[1])[:300], '\n code', u[2][:200], '\n spec', u[3][:200], '\n', u[4][:400])
    return stats, devs, devs_diff, witness, unexplained


def report(stats, devs, devs_diff, witness, show_witness=False):
    for k in sorted(stats):
        print('  %-36s %d' % (k, stats[k]))
    for k in sorted(devs):
        print('  dev %-40s flagged %5d   bytes differ %5d' % (k, devs[k], devs_diff[k]))
    if show_witness:
        for k in sorted(witness):
            txt, v, mine, l, head = witness[k]
            print('  witness', k, '\n   ', l[:300], '\n    code:', mine[:80], ' spec:', head[:80])


# ---------------------------------------------------------------------------------- hand-made cases
BOOL = {'k': 'bool'}
NULL = {'k': 'null'}


def INT(lo=None, hi=None, ext=False):
    return {'k': 'int', 'lo': lo, 'hi': hi, 'ext': ext, 'con': not (lo is None and hi is None and not ext)}


def OCTS(size=None):
    return {'k': 'octs', 'size': size}


def BITS(size=None):
    return {'k': 'bits', 'size': size}


def STR(kind, size=None):
    return {'k': 'str', 'kind': kind, 'size': size}


def SEQOF(e, size=None):
    return {'k': 'seqof', 'elem': e, 'size': size}


def M(name, t, opt=False, default=None):
    return {'name': name, 't': t, 'opt': opt, 'default': default}


def SEQ(root, ext=None):
    return {'k': 'seq', 'root': root, 'ext': ext}


def CHOICE(root, ext=None):
    return {'k': 'choice', 'root': root, 'ext': ext}


def ENUM(root, ext=None):
    return {'k': 'enum', 'root': root, 'ext': ext}


def after_bits(nbits, t, v):
    """t preceded by `nbits` BOOLEANs in a SEQUENCE (every start offset), followed by a BOOLEAN"""
    ms = [M('p%d' % i, BOOL) for i in range(nbits)] + [M('x', t), M('q', BOOL)]
    val = {'p%d' % i: (i % 2 == 0) for i in range(nbits)}
    val['x'] = v
    val['q'] = True
    return SEQ(ms), val


def hand_cases(rng):
    cases = []

    def add(t, v, offsets=(0, 1, 7)):
        for o in offsets:
            if o == 0:
                cases.append((t, v))
            else:
                cases.append(after_bits(o, t, v))

    # constrained whole numbers: range widths
    for w in [1, 2, 3, 4, 127, 128, 129, 255, 256, 257, 65535, 65536, 65537, 2 ** 24, 2 ** 32, 2 ** 32 + 1, 2 ** 64,
              2 ** 64 + 1, 2 ** 128]:
        for lo in [0, -5, 1000]:
            hi = lo + w - 1
            vals = {lo, hi, lo + (w - 1) // 2, lo + min(w - 1, 255), lo + min(w - 1, 256), lo + min(w - 1, 65535),
                    lo + min(w - 1, 65536)}
            for v in sorted(vals):
                add(INT(lo, hi), v)
                add(INT(lo, hi, True), v, offsets=(0, 3))
            add(INT(lo, hi, True), hi + 1, offsets=(0, 3))
            add(INT(lo, hi, True), lo - 1, offsets=(0, 3))
            add(INT(lo, hi, True), lo - 2 ** 70, offsets=(0,))
    # huge range: length of length
    for w in [2 ** 1016, 2 ** 1024, 2 ** 1024 + 1, 2 ** 1032, 2 ** 2040, 2 ** 2048]:
        for v in [0, 1, 255, 256, w - 1]:
            add(INT(0, w - 1), v, offsets=(0, 3))
    # semi-constrained / unconstrained
    for lo in [0, 3, -3, 256, -129]:
        for d in [0, 1, 127, 128, 255, 256, 32767, 32768, 65535, 65536, 2 ** 31, 2 ** 63, 2 ** 64]:
            add(INT(lo, None), lo + d)
    for v in [0, 1, -1, 127, 128, -128, -129, 255, 256, 32767, 32768, -32768, -32769, 2 ** 63, -2 ** 63, 2 ** 64]:
        add(INT(), v)
        add(INT(None, 2 ** 70), v, offsets=(0,))
    add(INT(), 2 ** (8 * 16383 - 1) - 1, offsets=(0,))      # 16383 octets
    add(INT(), 2 ** (8 * 16383 - 1), offsets=(0,))          # 16384 octets
    add(INT(0, None), 2 ** (8 * 16384) - 1, offsets=(0,))
    add(INT(0, None, True), 5, offsets=(0,))
    add(INT(None, 5, True), 5, offsets=(0,))
    # lengths
    lens = [0, 1, 2, 3, 16, 17, 127, 128, 255, 256, 16383, 16384, 16385, 32767, 32768, 49152, 65535, 65536, 65537, 70000,
            131072]
    sizes = [None, (0, 127, False), (0, 128, False), (0, 255, False), (0, 256, False), (1, 256, False), (1, 257, False),
             (0, 65535, False), (0, 65536, False), (1, 65536, False), (5, 70000, False), (0, 10, True), (0, 65535, True),
             (16384, 16384, False), (65535, 65535, False), (65536, 65536, False), (70000, 70000, False),
             (2, None, False), (2, None, True)]
    for n in lens:
        for s in sizes:
            lo, hi, ext = s if s else (0, None, False)
            ok = lo <= n and (hi is None or n <= hi)
            if not ok and not ext:
                continue
            add(OCTS(s), bytes((i * 7 + 1) & 0xff for i in range(n)), offsets=(0, 3))
            add(BITS(s), (bytes((i * 7 + 1) & 0xff for i in range((n + 7) // 8 - (1 if n % 8 else 0))) +
                          (bytes([0x80]) if n % 8 else b''), n), offsets=(0, 3))
            add(STR('IA5String', s), ''.join(chr(65 + i % 26) for i in range(n)), offsets=(0, 3))
            add(STR('NumericString', s), ''.join(' 0123456789'[i % 11] for i in range(n)), offsets=(0, 3))
            add(STR('UTF8String', s), ''.join('aé€'[i % 3] for i in range(n)), offsets=(0,))
            if n <= 70000:
                add(SEQOF(BOOL, s), [i % 3 == 0 for i in range(n)], offsets=(0, 3))
            if n in (0, 1, 16383, 16384, 32768, 65536):
                add(SEQOF(INT(0, 255), s), [i % 256 for i in range(n)], offsets=(0, 3))
                add(SEQOF(INT(0, 7), s), [i % 8 for i in range(n)], offsets=(0, 3))
    # fixed sizes around the alignment thresholds
    for n in [0, 1, 2, 3, 4, 5, 8, 15, 16, 17, 24]:
        add(OCTS((n, n, False)), bytes(range(n)), offsets=(0, 1, 5))
        add(BITS((n, n, False)), (bytes([0xa5] * ((n + 7) // 8)), n), offsets=(0, 1, 5))
        for kind in ['IA5String', 'NumericString', 'PrintableString', 'VisibleString']:
            txt = ('0123456789' * 3)[:n]
            add(STR(kind, (n, n, False)), txt, offsets=(0, 1, 5))
            for lo in [0, 1]:
                if lo < n:
                    for k in sorted({lo, min(n, lo + 1), n}):
                        add(STR(kind, (lo, n, False)), txt[:k], offsets=(0, 1, 5))
                        add(STR(kind, (lo, n, True)), txt[:k], offsets=(1,))
            add(STR(kind, (0, n, True)), txt + '77', offsets=(1,))
        for lo in [0, 1]:
            if lo < n:
                add(OCTS((lo, n, False)), bytes(range(lo)), offsets=(0, 1, 5))
                add(BITS((lo, n, False)), (bytes([0xa5] * ((lo + 7) // 8)), lo), offsets=(0, 1, 5))
    # alphabets
    for kind in ['IA5String', 'NumericString', 'PrintableString', 'VisibleString']:
        for ch in ALPHABETS[kind]:
            cases.append((STR(kind, (1, 1, False)), ch))
        cases.append((STR(kind), ''.join(ALPHABETS[kind])))
        cases.append(after_bits(3, STR(kind, (0, 200, False)), ''.join(ALPHABETS[kind])))
    # ENUMERATED / CHOICE sizes
    for n in [1, 2, 3, 4, 5, 255, 256, 257, 300]:
        root = [('e%d' % i, (i * 7) % 1009 - 20) for i in range(n)]
        for k in sorted({0, n // 2, n - 1}):
            add(ENUM(root), 'e%d' % k, offsets=(0, 3))
            add(ENUM(root, []), 'e%d' % k, offsets=(0, 3))
        alts = [('c%d' % i, INT(0, 255) if i % 2 else BOOL) for i in range(n)]
        for k in sorted({0, n // 2, n - 1}):
            add(CHOICE(alts), ('c%d' % k, 7 if k % 2 else True), offsets=(0, 3))
            add(CHOICE(alts, []), ('c%d' % k, 7 if k % 2 else True), offsets=(0, 3))
    for n in [1, 2, 63, 64, 65, 66, 127, 128, 129, 256, 257, 300]:
        ext = [('x%d' % i, 2000 + i) for i in range(n)]
        for k in sorted({0, n // 2, n - 1, min(n - 1, 63), min(n - 1, 64)}):
            add(ENUM([('a', 0), ('b', 1)], ext), 'x%d' % k, offsets=(0, 3))
        ealts = [('d%d' % i, INT(0, 255) if i % 2 else NULL) for i in range(n)]
        for k in sorted({0, n // 2, n - 1, min(n - 1, 63), min(n - 1, 64)}):
            add(CHOICE([('a', BOOL), ('b', NULL)], ealts), ('d%d' % k, 7 if k % 2 else None), offsets=(0, 3))
    # extension additions: counts, empty open types, long open types
    for n in [1, 2, 63, 64, 65, 66, 127, 128, 129, 200]:
        adds = [M('x%d' % i, [BOOL, NULL, INT(0, 255), OCTS()][i % 4], opt=True) for i in range(n)]
        vals = [True, None, 9, b'\x01\x02']
        for present in [[0], [n - 1], list(range(n)), list(range(0, n, 3))]:
            v = {'r': True}
            for i in present:
                v['x%d' % i] = vals[i % 4]
            add(SEQ([M('r', BOOL)], adds), v, offsets=(0, 2))
        add(SEQ([M('r', BOOL)], adds), {'r': False}, offsets=(0,))
    for n in [0, 1, 127, 128, 16383, 16384, 16385, 32768, 65536, 70000]:
        add(SEQ([M('r', BOOL)], [M('x', OCTS((n, n, False)), opt=True)]), {'r': True, 'x': bytes(n)}, offsets=(0, 2))
        add(CHOICE([('r', BOOL)], [('x', OCTS((n, n, False)))]), ('x', bytes(n)), offsets=(0, 2))
    add(SEQ([M('r', BOOL)], [M('x', SEQ([]), opt=True), M('y', NULL, opt=True), M('z', BOOL, opt=True)]),
        {'r': True, 'x': {}, 'y': None, 'z': False})
    add(SEQ([], [M('x', INT(0, 7), default=3)]), {'x': 3})
    add(SEQ([M('x', INT(0, 7), default=3)]), {'x': 3})
    add(SEQ([M('x', INT(0, 7), default=3)]), {'x': 4})
    add(SEQ([M('x', INT(0, 7), default=3)]), {})
    add(SEQ([]), {})
    add(NULL, None, offsets=(0,))
    add(SEQOF(NULL), [None] * 5, offsets=(0,))
    return cases


def main():
    if sys.argv[1] == 'hand':
        codec = sys.argv[2]
        cases = hand_cases(random.Random(1))
        print('hand-made cases:', len(cases), codec)
        res = run(cases, codec)
        report(*res[:4], show_witness=True)
        sys.exit(1 if res[4] else 0)
    seed = int(sys.argv[1])
    n = int(sys.argv[2])
    codec = sys.argv[3]
    big = len(sys.argv) > 4 and sys.argv[4] == 'big'
    rng = random.Random(seed)
    cases = []
    for i in range(n):
        g = Gen(rng, Opts(big_lengths=0.3, allow_exotic=0.1) if big else None)
        t = g.type()
        for j in range(4):
            cases.append((t, g.value(t)))
    res = run(cases, codec)
    print('seed', seed, 'types', n, codec, 'big' if big else '')
    report(*res[:4], show_witness='-w' in sys.argv)
    sys.exit(1 if res[4] else 0)


if __name__ == '__main__':
    main()
