"""Stand-alone runner of the dictionary-rewrite tie (harness/prep.py); see the module docstring there."""
import os
import sys
sys.path.insert(0, os.path.dirname(os.path.dirname(os.path.abspath(__file__))))
from harness import prep  # noqa

if __name__ == '__main__':
    print(prep.__doc__) if len(sys.argv) < 2 else sys.exit(prep.main(sys.argv))
