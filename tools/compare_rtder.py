"""Empirical validation of the BER/DER round-trip theorem statement on generated cases.
usage: compare_rtder.py <seed> <ntypes> [der|ber]"""
import os, random, sys
from collections import Counter
sys.path.insert(0, os.path.dirname(os.path.dirname(os.path.abspath(__file__))))
from harness.gen import Gen, module_text, ty_sx, val_sx
from harness import core
seed = int(sys.argv[1]) if len(sys.argv) > 1 else 1
N = int(sys.argv[2]) if len(sys.argv) > 2 else 300
codec = sys.argv[3] if len(sys.argv) > 3 else 'der'
rng = random.Random(seed)
m = core.Model()
lines = []
for i in range(N):
    g = Gen(rng)
    t = g.type()
    for j in range(4):
        v = g.value(t)
        lines.append('rtder\t%s\t%s\t%s' % (codec, ty_sx(t), val_sx(t, v)))
ans = m.batch(lines)
cnt = Counter()
bad = 0
for l, a in zip(lines, ans):
    hyp = 'wf=T' in a and 'defaults=T' in a and 'hasType=T' in a
    ok = a.endswith('enc=ok dec=ok value=T rest=T')
    cnt[('hyp' if hyp else 'nohyp') + (' concl' if ok else ' noconcl')] += 1
    if hyp and not ok:
        bad += 1
        if bad < 6:
            print('VIOLATION', a, '\n', l[:400])
print(codec, 'cases', len(lines), dict(cnt), 'violations', bad)
