"""GSER: real asn1tools vs the Lean model (Asn1Model/Gser.lean) on generated types / values.

usage: compare_gser.py <seed> <ntypes>

For every generated type (4 values each) and indent in {None, 0, 1, 2, 4}:
  E  real encode(name, v, indent=i) octets == model `gser`
  R  the Lean RFC 3641 reader (`gserread`) applied to the REAL octets returns the canonical value
     (DEFAULT members filled in, unused bits cleared) and the two names of the value assignment
  T  `gserrt`: hypotheses and conclusion of the round-trip theorem evaluated by the model on the case
  P  the independent reader written in Python (harness/props/c20.py) reads the real text back to the value
"""
import os
import random
import sys
from collections import Counter

sys.path.insert(0, os.path.dirname(os.path.dirname(os.path.abspath(__file__))))
from harness import gen as G
from harness.gen import Gen, Opts, module_text, ty_sx, val_sx, canon_py
from harness import impl, core
from harness.props import c20

G.ALPHABETS['UTF8String'] = ([chr(c) for c in range(32, 127)] + list('"\'{},: ') * 4 +
                             [chr(c) for c in range(0, 32)] +
                             list('\x7f\x80\xa0åäö€漢𝄞߿ࠀ￿￾퟿﻿\U00010000\U0010ffff\U0001f600'))

seed = int(sys.argv[1]) if len(sys.argv) > 1 else 1
N = int(sys.argv[2]) if len(sys.argv) > 2 else 300
rng = random.Random(seed)
m = core.Model()
INDENTS = [None, 0, 1, 2, 4]
NAMES = ['A', 'Ab', 'My-Type', 'T1', 'Zz9-x']
stats = Counter()
bad = []

reqs, meta = [], []
for i in range(N):
    g = Gen(rng, Opts(max_depth=3, allow_exotic=0.0, big_lengths=0.0, big_in_additions=0.0))
    t = g.type()
    name = rng.choice(NAMES)
    text = module_text([(name, t)])
    st, spec = impl.compile_text(text, 'gser')
    if st != 'ok':
        stats['compile.' + st] += 1
        continue
    tsx = ty_sx(t)
    for v in [g.value(t) for _ in range(4)]:
        for indent in INDENTS:
            kw = {} if indent is None else {'indent': indent}
            r = impl.encode(spec, name, v, **kw)
            ind = '-' if indent is None else str(indent)
            reqs.append('gser\t%s\t%s\t%s\t%s' % (ind, name, tsx, val_sx(t, v)))
            reqs.append('gserread\t%s\t%s' % (tsx, r[1].hex() if r[0] == 'ok' else '-'))
            reqs.append('gserrt\t%s\t%s\t%s\t%s' % (ind, name, tsx, val_sx(t, v)))
            meta.append((t, text, name, v, indent, r))
ans = m.batch(reqs)
for i, (t, text, name, v, indent, r) in enumerate(meta):
    menc, mread, mrt = ans[3 * i], ans[3 * i + 1], ans[3 * i + 2]
    stats['cases'] += 1
    mine = ('ok ' + r[1].hex()) if r[0] == 'ok' else 'err ' + r[1]
    if menc != mine:
        stats['E.mismatch'] += 1
        bad.append(('E', text, repr(v)[:300], indent, r[1][:300] if r[0] == 'ok' else r, bytes.fromhex(menc[3:])[:300] if menc.startswith('ok ') else menc))
        continue
    stats['E.ok'] += 1
    if r[0] != 'ok':
        stats['encode-refused.' + r[1]] += 1
        continue
    want = 'ok %s %s %s strict=' % (val_sx(t, canon_py(t, v)), name.lower(), name)
    if not mread.startswith(want):
        stats['R.mismatch'] += 1
        bad.append(('R', text, repr(v)[:300], indent, r[1][:300], mread[:300], want[:300]))
    else:
        stats['R.ok'] += 1
        stats['R.strict=' + mread[-1]] += 1
    if 'wf=T typed=T ids=T name=T' in mrt:
        if mrt.endswith('enc=ok read=ok value=T'):
            stats['T.ok'] += 1
        else:
            stats['T.THEOREM-FALSIFIED'] += 1
            bad.append(('T', text, repr(v)[:300], indent, mrt))
    else:
        stats['T.hyps-false.' + mrt.split(' enc=')[0]] += 1
        if not mrt.endswith('enc=ok read=ok value=T'):
            stats['T.hyps-false-and-conclusion-false'] += 1
    try:
        got = c20.read_text(r[1].decode('utf-8'), t, name)
        if c20.canon_eq(t, got, v):
            stats['P.ok'] += 1
        else:
            stats['P.mismatch'] += 1
            bad.append(('P', text, repr(v)[:300], indent, r[1][:300], repr(got)[:300]))
    except c20.ReadError as e:
        stats['P.reject'] += 1
        bad.append(('Prej', text, repr(v)[:300], indent, r[1][:300], str(e)))

for k in sorted(stats):
    print('%-40s %d' % (k, stats[k]))
for b in bad[:12]:
    print('----')
    for x in b:
        print('   ', x)
sys.exit(1 if bad else 0)
