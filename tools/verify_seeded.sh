#!/bin/bash
# usage: tools/verify_seeded.sh <seeded-dir>   (independent confirmation of a seeded change)
# Applies patch.diff in a scratch worktree of /repo, runs demo.py with and without it, runs the pinned
# test suite with it, writes <seeded-dir>/verify.json, removes the worktree.
d=$(realpath "$1"); id=$(basename "$d"); wt=/tmp/vw_$id
git -C /repo worktree remove --force $wt 2>/dev/null; rm -rf $wt
git -C /repo worktree add -f $wt HEAD -q || exit 2
cd $wt
PYTHONPATH=$wt /venv/bin/python $d/demo.py > /tmp/vw_$id.unpatched.log 2>&1; e0=$?
git apply $d/patch.diff || { echo "patch does not apply"; git -C /repo worktree remove --force $wt; exit 2; }
PYTHONPATH=$wt timeout 300 /venv/bin/python $d/demo.py > /tmp/vw_$id.patched.log 2>&1; e1=$?
PYTHONPATH=$wt /venv/bin/python -m pytest -q -p no:cacheprovider --timeout=900 --continue-on-collection-errors --junitxml=/tmp/vw_$id.xml tests > /tmp/vw_$id.pytest.log 2>&1
/venv/bin/python - "$d" "$e0" "$e1" /tmp/vw_$id.xml <<'PY'
import json, sys, xml.etree.ElementTree as ET
d, e0, e1, x = sys.argv[1], int(sys.argv[2]), int(sys.argv[3]), sys.argv[4]
stable = set(json.load(open('/root/.vp/BASELINE.json'))['stable_pass'])
passed = set()
for tc in ET.parse(x).getroot().iter('testcase'):
    if not any(ch.tag in ('failure', 'error', 'skipped') for ch in tc):
        passed.add('%s::%s' % (tc.get('classname'), tc.get('name')))
res = {'demo_unpatched_exit': e0, 'demo_patched_exit': e1, 'stable_pass_still_passing': len(stable & passed), 'stable_pass_total': len(stable),
       'missing': sorted(stable - passed)[:10], 'confirmed': e0 == 0 and e1 != 0 and stable <= passed}
json.dump(res, open(d + '/verify.json', 'w'), indent=1)
print(d, res['confirmed'], e0, e1, len(stable & passed))
PY
cd /; git -C /repo worktree remove --force $wt; rm -f /tmp/vw_$id.xml
