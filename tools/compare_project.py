"""C07: validate the Lean definitions `Ext.extendsB` / `Ext.project` and the statements of the C07 theorems
against the Python generator of extension steps and the Python `project` (harness/extend.py), and against the
real codecs.

usage: /venv/bin/python tools/compare_project.py [seed] [pairs]

For every generated (V1, V2, v2-values, v1-values) inside the modelled universe:
  1. `extendsB V1 V2` must be true, `extendsB V2 V1` false when a step changed the type;
  2. driver `project V1 V2 v2` == val_sx(V1, python project(V1, V2, v2));
  3. for codec in uper, oer, der (driver op `c07`, which evaluates exactly the statement of the theorem):
       fwd: MODEL dec_V1(MODEL enc_V2(v2) ++ rest) == (canon V1 (project V1 V2 v2), rest)
       bwd: MODEL dec_V2(MODEL enc_V1(v1) ++ rest) == (canon V2 v1, rest)
     whenever the hypotheses (wf, defaultsOk, hasType, side conditions) hold;
  4. the same through the ops `enc` / `dec` and the REAL implementation: real decode_V1(real encode_V2(v2)) and the
     model `dec V1` of the model `enc V2` bytes agree (value level, via impl_answer_dec).
"""
import os
import random
import sys
from collections import Counter

sys.path.insert(0, os.path.dirname(os.path.dirname(os.path.abspath(__file__))))
from harness import core, impl
from harness.codecs import impl_answer_dec
from harness.extend import extend, project
from harness.gen import Gen, Opts, module_text, ty_sx, val_sx, is_modelled

seed = int(sys.argv[1]) if len(sys.argv) > 1 else 1
N = int(sys.argv[2]) if len(sys.argv) > 2 else 1500
CODECS = ['uper', 'oer', 'der']

rng = random.Random(seed)
opts = Opts(max_depth=3, allow_exotic=0.0, big_lengths=0.0)
cases = []
tries = 0
while len(cases) < N and tries < 100 * N:
    tries += 1
    g = Gen(rng, opts)
    t1 = g.type()
    t2, n = extend(g, t1, rng.randint(1, 4))
    if n == 0 or not is_modelled(t1) or not is_modelled(t2):
        continue
    vals2 = [g.value(t2) for _ in range(3)]
    vals1 = [g.value(t1) for _ in range(2)]
    cases.append((t1, t2, vals1, vals2, n))

m = core.Model()
cnt = Counter()
bad = 0


def report(*a):
    global bad
    bad += 1
    if bad <= 8:
        print('MISMATCH', *a)


# 1 + 2: extendsB and project
lines, meta = [], []
for t1, t2, vals1, vals2, n in cases:
    s1, s2 = ty_sx(t1), ty_sx(t2)
    for v in vals2:
        lines.append('project\t%s\t%s\t%s' % (s1, s2, val_sx(t2, v)))
        meta.append((t1, t2, v, s1 != s2))
    lines.append('project\t%s\t%s\t%s' % (s2, s1, val_sx(t1, vals1[0])))
    meta.append((t2, t1, None, s1 != s2))
for (ta, tb, v, changed), a, l in zip(meta, m.batch(lines), lines):
    if v is None:
        # reversed: must not be an extension when the type really changed
        cnt['extendsB(V2,V1)=' + a.rsplit('extends=', 1)[1] + (' changed' if changed else ' same')] += 1
        if changed and a.endswith('extends=T'):
            report('extendsB V2 V1 is true', l[:300])
        continue
    want = 'ok ' + val_sx(ta, project(ta, tb, v)) + ' extends=T'
    cnt['project.' + ('same' if want == a else 'DIFF')] += 1
    if want != a:
        report('project', '\n python', want[:300], '\n lean  ', a[:300], '\n', l[:400])

# 3: the theorem statements, evaluated by the driver
lines, meta = [], []
for t1, t2, vals1, vals2, n in cases:
    s1, s2 = ty_sx(t1), ty_sx(t2)
    for codec in CODECS:
        for v in vals2:
            lines.append('c07\tfwd\t%s\t%s\t%s\t%s' % (codec, s1, s2, val_sx(t2, v)))
            meta.append((codec, 'fwd'))
        for v in vals1:
            lines.append('c07\tbwd\t%s\t%s\t%s\t%s' % (codec, s1, s2, val_sx(t1, v)))
            meta.append((codec, 'bwd'))
for (codec, d), a, l in zip(meta, m.batch(lines), lines):
    f = dict(x.split('=', 1) for x in a.split() if '=' in x)
    hyps = all(f.get(k) == 'T' for k in ('extends', 'wf', 'hasType', 'defaults', 'side'))
    if not hyps:
        cnt['%s.%s.hypotheses-false(%s)' % (codec, d, ','.join(k for k in ('extends', 'wf', 'hasType', 'defaults', 'side') if f.get(k) != 'T'))] += 1
        continue
    ok = f.get('enc') == 'ok' and f.get('dec') == 'ok' and f.get('value') == 'T' and f.get('rest') == 'T'
    cnt['%s.%s.%s' % (codec, d, 'holds' if ok else 'FAILS')] += 1
    if not ok:
        report('theorem statement', codec, d, a, '\n', l[:600])

# 4: real implementation vs model, V2 bytes decoded under V1
lines, meta = [], []
for t1, t2, vals1, vals2, n in cases[:max(50, N // 5)]:
    text1, text2 = module_text([('A', t1)]), module_text([('A', t2)])
    for codec in CODECS:
        c1, c2 = impl.compile_text(text1, codec), impl.compile_text(text2, codec)
        if c1[0] != 'ok' or c2[0] != 'ok':
            cnt['%s.compile-failed' % codec] += 1
            continue
        for v in vals2:
            r = impl.encode(c2[1], 'A', v)
            if r[0] != 'ok':
                cnt['%s.impl-encode-failed' % codec] += 1
                continue
            d = impl.decode(c1[1], 'A', r[1])
            lines.append('dec\t%s\t%s\t%s' % (codec, ty_sx(t1), r[1].hex() or '-'))
            meta.append((codec, t1, d, r[1]))
for (codec, t1, d, data), a in zip(meta, m.batch(lines)):
    if a.endswith('unmodelled'):
        cnt['%s.impl-vs-model.unmodelled' % codec] += 1
        continue
    mine = impl_answer_dec(t1, d)
    cnt['%s.impl-vs-model.%s' % (codec, 'same' if mine == a else 'DIFF')] += 1
    if mine != a:
        report('impl vs model', codec, ty_sx(t1)[:300], data.hex()[:100], '\n impl ', mine[:200], '\n model', a[:200])

print('pairs', len(cases), 'seed', seed)
for k in sorted(cnt):
    print('  %-60s %d' % (k, cnt[k]))
print('MISMATCHES', bad)
sys.exit(1 if bad else 0)
