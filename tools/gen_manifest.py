"""Writes MANIFEST.json from the table below (keeps it valid and in one place)."""
import json, os
HERE = os.path.dirname(os.path.dirname(os.path.abspath(__file__)))
NOTE_COMMON = ("Trusted base: Lean 4.33.0 kernel; axioms printed by #print axioms for every property theorem (subset of propext, Classical.choice, Quot.sound; "
               "no native_decide/bv_decide/sorry/own axioms, audited on every run); the hand-written model is tied to /repo by the correspondence check "
               "(model driver vs real asn1tools on the same generated inputs) and by harness/extract.py regenerating Asn1Model/Extracted.lean from the source. ")
CHECKS = {
 'C14': dict(
    text="Lean theorems about the model of ignore_comments (new-line positions, length and every non-comment character preserved for ALL strings); "
         "the model is tied to the code by exact output equality on generated strings and the fixture corpus; layout independence of the grammar above it is checked metamorphically.",
    note=NOTE_COMMON + "pyparsing grammar not modelled (partial): relayout equality of parse results is sampled, not proved.",
    technique="Lean 4 proof (functional induction over the comment automaton) + differential correspondence + metamorphic parsing",
    ref="DESIGN.md §4 C14"),
}
NOT_APPLICABLE = []

def main():
    props = [json.loads(l)['id'] for l in open(os.path.join(HERE, 'properties.jsonl'))]
    checks = []
    for pid in props:
        if pid not in CHECKS:
            continue
        c = CHECKS[pid]
        checks.append({
            'property_id': pid,
            'quick_cmd': './check %s --tier quick' % pid,
            'thorough_cmd': './check %s --tier thorough' % pid,
            'evidence_file': 'evidence/%s.json' % pid,
            'replay_cmd_template': './check %s --replay {path}' % pid,
            'engine': 'lean-model+correspondence',
            'level_claimed': {'category': c.get('category', 'proof'), 'text': c['text'], 'design_ref': c['ref']},
            'level_note': c['note'],
            'technique': c['technique'],
        })
    na = list(NOT_APPLICABLE)
    for pid in props:
        if pid not in CHECKS and not any(n['property_id'] == pid for n in na):
            na.append({'property_id': pid, 'reason': 'check not built yet in this revision (planned, see DESIGN.md §4); not claimed'})
    m = {
        'version': 1,
        'setup_cmd': 'cd lean && lake build Asn1Model Asn1Proofs driver',
        'hooks': {
            'guard': 'ASN1TOOLS_VERIF',
            'enable': 'no source hooks are needed: instrumentation is installed from the harness at run time (DESIGN.md §2.5)',
            'baseline_off_cmd': 'cd /repo && /venv/bin/python -m pytest -ra -q -p no:cacheprovider --timeout=900 --continue-on-collection-errors',
            'source_commits': [],
            'add_only': True,
        },
        'engines': [{'name': 'lean-model+correspondence', 'path': 'lean/ + harness/', 'serves_properties': [c['property_id'] for c in checks],
                     'kind_free_text': 'Lean 4 model and theorems (lean/), Python harness driving the compiled model and the real asn1tools over one line protocol (harness/)'}],
        'checks': checks,
        'not_applicable': na,
        'notes': 'Every check = stage P (extract tables from /repo, lake build, forbidden-construct grep, #print axioms audit) + stage K (correspondence and direct evaluation of the property on the implementation). See DESIGN.md.',
    }
    with open(os.path.join(HERE, 'MANIFEST.json'), 'w') as f:
        json.dump(m, f, indent=1)
        f.write('\n')

if __name__ == '__main__':
    main()
