"""Writes MANIFEST.json from the table below (keeps it valid and in one place)."""
import json, os
HERE = os.path.dirname(os.path.dirname(os.path.abspath(__file__)))
NOTE_COMMON = ("Trusted base: Lean 4.33.0 kernel; axioms printed by #print axioms for every property theorem (subset of propext, Classical.choice, Quot.sound; "
               "no native_decide/bv_decide/sorry/own axioms, audited on every run); the hand-written model is tied to /repo by the correspondence check "
               "(model driver vs real asn1tools on the same generated inputs), by harness/extract.py regenerating Asn1Model/Extracted.lean (tables) and by harness/py2lean.py regenerating Asn1Model/Translated.lean (leaf functions and bit buffer classes) from the source on every run. ")
CHECKS = {
 'C14': dict(
    text="Lean theorems about the model of ignore_comments (new-line positions, length and every non-comment character preserved for ALL strings); "
         "the model is tied to the code by exact output equality on generated strings and the fixture corpus; layout independence of the grammar above it is checked metamorphically.",
    note=NOTE_COMMON + "pyparsing grammar not modelled (partial): relayout equality of parse results is sampled, not proved.",
    technique="Lean 4 proof (functional induction over the comment automaton) + differential correspondence + metamorphic parsing",
    ref="DESIGN.md §4 C14"),
}
CHECKS['C01'] = dict(
    text="Lean theorem uper_roundtrip_partial: for ALL well-formed types of the model universe and ALL accepted values and ALL continuations of the bit stream, "
         "UPER decode(encode v ++ rest) = (canon v, rest) (structural induction over the type universe, no bound on nesting/sizes), outside the named finding predicates; "
         "likewise oer_roundtrip_partial (OER) and der_roundtrip / ber_roundtrip (C01b.lean); aligned PER: per_roundtrip_partial / per_roundtrip_mod8 / per_decode_encode for the whole universe (C01p.lean, hypothesis Per.fragFree with a necessity witness). "
         "The uper/oer models are tied to the code by byte-exact encode and value-exact decode correspondence on every generated case.",
    note=NOTE_COMMON + "Partial: universe = BOOLEAN/NULL/INTEGER/ENUMERATED/OCTET+BIT STRING/5 string kinds/SEQUENCE(OPTIONAL,DEFAULT,additions)/SEQUENCE OF/CHOICE under AUTOMATIC TAGS; "
         "REAL, OID, SET, time types, named bits, addition groups, references are exercised by correspondence-free direct checks only; CPython str codecs assumed.",
    technique="Lean 4 proof (mutual structural induction over Ty) + differential correspondence with the compiled Lean model",
    ref="DESIGN.md §4 C01")
CHECKS['C15'] = dict(
    text="Lean theorems probe_complete / probe_prefix (decode_full_length returns the full message length for EVERY prefix that contains the identifier and length octets and 'unknown' for every shorter one, for all valid identifier and definite length octets incl. padded long forms), encTag_valid, encLength_valid; "
         "exact correspondence on every prefix of synthetic TLVs (tags to 2^28, lengths to 70000, padded long forms) and decode_with_length on typed messages, on their other BER forms (segmented strings incl. zero segments, padded and inner indefinite lengths) and on messages of a newer version of the type.",
    note=NOTE_COMMON + "decode_with_length on typed values: C01b round-trip theorems with remaining input + direct evaluation.",
    technique="Lean 4 proof (all identifier / length octets, all prefixes) + exhaustive-prefix correspondence",
    ref="DESIGN.md §4 C15")
CHECKS['C16'] = dict(
    text="Lean theorems uper_truncated / oer_truncated / der_truncated: EVERY strict byte prefix of the encoding of any value of any type of the universe is rejected with the library's DecodeError by the code model (never a value, never foreign), and *_prefix_deterministic; "
         "every strict byte prefix of generated encodings is checked on the implementation for 5 codecs and, for uper/oer, against the Lean model decoder; the explicit-tagging family adds untagged CHOICE / ANY / high tag numbers under EXPLICIT and IMPLICIT TAGS.",
    note=NOTE_COMMON + "Aligned PER: per_truncated / per_prefix_deterministic (C16p.lean); BER with definite lengths: ber_truncated / ber_string_truncated (C16b.lean); indefinite-length BER, jer, xer by direct evaluation of every cut point only.",
    technique="Lean 4 proof (every strict prefix of every encoding, structural induction) + all-cut-points differential check",
    ref="DESIGN.md §4 C16")
CHECKS['C11'] = dict(
    text="Lean theorems check_iff_admits / rejected_path_exact: the model of constraints_checker.py accepts a value IFF every component at any depth "
         "lies inside every non-extensible range/SIZE/alphabet constraint of its own type (proved for all types and values by mutual structural induction); "
         "tied to the code by comparing, on boundary-mutated values (lo-1,lo,lo+1,hi-1,hi,hi+1, bad characters) and on reorganised modules "
         "(value-reference bounds, type references), the implementation's ConstraintsError, the Lean model and an independent interpreter in the harness, on encode and decode.",
    note=NOTE_COMMON + "Bound resolution through value/type references is on the implementation side only (generator renders one AST both ways). Known finding C11-size-on-reference.",
    technique="Lean 4 proof (iff, mutual structural induction) + boundary-value differential check",
    ref="DESIGN.md §4 C11")
CHECKS['C12'] = dict(
    text="Lean theorems welltyped_ok (every checker-accepted value, embedded as Python data, passes the type checker) and rejected_path_exact (the reported name path leads to a component "
         "whose own type is wrong), for all types/values; the implementation is exercised at every sampled component position x corruption kind x 8 codecs and must raise the library error with exactly that path.",
    note=NOTE_COMMON + "Codec-side errors (missing member, unknown enumeration value) are evaluated directly on the implementation; message tails are not compared.",
    technique="Lean 4 proof (mutual structural induction) + position x corruption-kind differential check",
    ref="DESIGN.md §4 C12")
CHECKS['C17'] = dict(
    text="Lean theorems key_injective (codec names from the source table are prefix-free, options prefix-free by hypothesis, length-prefixed file contents injective) and run_transparent: "
         "for EVERY history of compile_files calls on a consistent store every call returns what the uncached compile returns; the exact key bytes in the diskcache store are compared with the model key; "
         "histories with varied options, file edits and re-splits are compared behaviourally with uncached compiles; thorough tier injects SIGKILL and file damage (error-or-equal).",
    note=NOTE_COMMON + "Partial: diskcache/sqlite assumed to be an atomic map (fault injection supports, does not prove, that); Python repr of the option tuple assumed prefix-free.",
    technique="Lean 4 proof (invariant over call histories) + history differential check + fault injection",
    ref="DESIGN.md §4 C17")
CHECKS['C18'] = dict(
    text="Lean theorem noninterference: for EVERY schedule of micro-steps of any number of calls, if no step writes the shared state each call returns its solo result and the shared state is unchanged; "
         "the hypothesis is what is checked on the implementation: class-level write monitors on every object reachable from the Specification, structural fingerprints before/after op sequences, "
         "sequential and 1-8 thread runs compared call by call with fresh-specification oracles, input immutability.",
    note=NOTE_COMMON + "Partial: CPython GIL/bytecode atomicity not modelled; read-onlyness of the real objects is monitored, not proved.",
    technique="Lean 4 proof (schedule induction) + write monitoring + threaded differential check",
    ref="DESIGN.md §4 C18")
CHECKS['C03'] = dict(
    text="Lean theorems der_refines (the code model Der equals the specification encoder X690.derEncode written from X.690 clauses 8/10/11, for all types/values outside named deviation predicates), "
         "der_canonical (equal abstract values give identical octets), der_tlv_shape (one definite TLV with minimal length octets) and der_roundtrip; implementation bytes are compared with S and M on every generated case; "
         "SET / SET OF ordering, explicit tagging in every tagging environment, one named type used in several contexts and the time types (all outside the Lean universe) are compared with an independent X.690 encoder in the harness, including re-ordered presentations of equal values.",
    note=NOTE_COMMON + "Partial: SET, SET OF, REAL, time types, named bits are checked against the harness encoder only (no Lean model).",
    technique="Lean 4 proof (M = S refinement, canonicity, TLV shape) + byte-exact differential check",
    ref="DESIGN.md §4 C03")
CHECKS['C04'] = dict(
    text="Lean theorem complete: every byte string accepted by the spec-level reference decoder X690.berDecodeRef (any definite length form incl. padded, indefinite length + EOC on any constructed node, "
         "arbitrarily nested constructed strings) is decoded by the BER code model to the same value, outside the named deviation predicate; encoder_in_spec: encoder outputs are in that relation. "
         "Every variant produced by the independent TLV rewriter is certified by the reference decoder before it is given to the real decoder; for explicitly tagged types (outside the Lean universe) the variants are built from the shape of an independent DER encoding and certified by an independent BER reader.",
    note=NOTE_COMMON + "Partial: SET permutation is not in the Lean universe (no SET); content octets of primitives are as the DER encoder writes them.",
    technique="Lean 4 proof (completeness w.r.t. a reference decoder) + model-certified metamorphic variants",
    ref="DESIGN.md §4 C04")
CHECKS['C06'] = dict(
    text="Lean theorems oer_refines (code model Oer = specification encoder X696 written from X.696, for all types/values with an empty deviation list) and decoder_exact (the decoder model returns the value from the standard's octets); "
         "implementation bytes vs S and M on every generated case, S's octets fed to the real decoder; worked examples of the standard kernel-evaluated.",
    note=NOTE_COMMON + "S is my (agent-written) reading of X.696; deviations that are allowed encoder options are reported as findings of non-canonical output.",
    technique="Lean 4 proof (M = S refinement + decoder exactness) + byte-exact differential check",
    ref="DESIGN.md §4 C06")
CHECKS['C07'] = dict(
    text="Lean theorems forward_uper/oer/der and backward_uper/oer/der over the inductive relation Extends (additions, alternatives, enumeration items appended after the marker at any nesting depth): "
         "every V2 encoding decodes under V1 to canon(project v) with the rest of the stream intact, every V1 encoding decodes under V2 to the same value; extendsB_correct, v1_value_is_v2_value. "
         "Random extension steps V1->V2 are exercised on 7 real codecs in both directions and the V1 model decoders are run on the real V2 bytes.",
    note=NOTE_COMMON + "Theorems cover uper, oer, der, aligned PER (C07p.lean: forward_per / backward_per under Per.skipFree, whose necessity is the recorded finding C07-per-unknown-addition-16k) and BER with every length form (C07b.lean: forward_ber / backward_ber / *_dec / ber_enc_stable); jer, xer by direct evaluation only. Known findings C07-xer-list-element-unknown, C07-per-unknown-addition-16k.",
    technique="Lean 4 proof (induction over a compatibility relation between decoder and encoder types) + version-pair differential check",
    ref="DESIGN.md §4 C07")
CHECKS['C08'] = dict(
    text="Lean theorems for the total decoder models: allocation bounds (decoded value size <= K(type) x input length) for ALL byte strings and types for DER, BER and UPER; fuel sufficiency "
         "(raising the fuel of every data-driven loop above input length + 2 never changes the result: the loops stop because of the data) for DER, BER, UPER; and the recorded OER defect as theorems "
         "(a quantity field of n yields n elements from O(log n) octets; no linear allocation bound exists). Mutated and random inputs up to 4 KiB are decoded by 7 real codecs under time / address-space limits with a sentinel "
         "decode after each, and the outcome class is compared with the Lean models.",
    note=NOTE_COMMON + "Partial: CPython wall-clock time and resident memory are observed under limits, not modelled; aligned PER: C08p.lean (linear allocation bound for all types, fuel sufficiency, per_choice_overrun_rejected); OER has no bound (known finding, proved); jer/xer are exercised directly.",
    technique="Lean 4 proof (allocation bound + fuel sufficiency of total decoder models) + resource-limited mutation differential check",
    ref="DESIGN.md §4 C08")
CHECKS['C02'] = dict(
    text="Lean theorems jer_roundtrip / jer_roundtrip_exact: for ALL well-formed types of the model universe, ALL accepted values and ALL indentation settings, the JER document the model writes is "
         "pure ASCII, is accepted by an independent RFC 8259 reader written in Lean (json_parse_render: parse (render j) = j for every well-formed tree) and decodes to the same abstract value; "
         "the JER model is tied to the code by byte-exact document equality and value-exact decode on every generated case, and the Lean JSON reader is run on the implementation's own documents. "
         "XER: theorems xer_document_roundtrip / xml_parse_render / xer_indent_irrelevant: the document the XER model writes is ASCII, is parsed completely by an independent XML 1.0 reader written in Lean "
         "(parse (renderDoc indent x) = x for every tree the encoder can produce) and decodes to the same value for every indentation, under the decidable character/INTEGER-size hypotheses whose necessity is proved by closed witnesses; "
         "tied to the code by byte-exact documents both ways, by the Lean reader and expat on the implementation's output. REAL boundary doubles (max, min subnormal, +-0, +-inf, exponents) are checked for exact round-trip in both codecs.",
    note=NOTE_COMMON + "Partial: json.dumps, ElementTree.tostring and repr(float) are trusted externals (their output is what the Lean readers parse); REAL, OID, time types are outside the Lean universe (direct evaluation); "
         "XER strings are restricted to XML Char minus CR (theorems cr_changes_value, control_char_not_wellformed show why). Known finding C02-addition-group-mandatory.",
    technique="Lean 4 proof (JER and XER model round-trips through RFC 8259 / XML 1.0 readers written in Lean; structural induction over Ty, JSON and XML trees) + document-exact differential correspondence + independent parsers",
    ref="DESIGN.md §4 C02")
CHECKS['C13'] = dict(
    text="Lean model Preprocess.run of Compiler.pre_process (COMPONENTS OF expansion, EXTENSIBILITY IMPLIED, automatic tagging, DEFAULT conversion incl. numeric_enums, per module in source order). Theorems: run_idempotent "
         "(a rewrite of a rewritten dictionary is the identity, for ALL dictionaries incl. cyclic COMPONENTS OF; hypothesis EnumRefsStable), run_history (after ANY sequence of numeric_enums flags the dictionary equals ONE fresh rewrite "
         "with the last flag, under the decidable hypothesis HistoryOK whose negation is the recorded finding predicate), clean_after_compile, per-pass idempotence lemmas; witnesses of both recorded defects as theorems. "
         "Tied to the code by exact dictionary equality after 1, 3, 6, 9 real rewrites (compile_dict runs three each) on generated specifications, hand-made dictionaries and the repository fixtures, through pformat/eval steps; "
         "behaviour after random histories is compared with fresh compiles on all 8 codecs.",
    note=NOTE_COMMON + "Partial: the compile stages after pre_process are assumed to be a function of the rewritten dictionary (checked by behavioural fingerprints, not proved); parameterization passes and information objects are outside the model (fixtures using them are skipped and counted). "
         "Known findings C13-enum-value-reference, C13-components-of-type-capture, C13-pformat-reorders-modules.",
    technique="Lean 4 proof (idempotence and history absorption of the modelled rewrite, induction over modules/descriptors) + dictionary-exact differential correspondence + history-vs-fresh behavioural comparison",
    ref="DESIGN.md §4 C13")
CHECKS['C19'] = dict(
    text="Lean theorems run_extensibility_implied (C19e.lean: after the rewrite every SEQUENCE / SET / CHOICE at any depth — members, groups, elements of SEQUENCE OF — of every type of an EXTENSIBILITY IMPLIED module carries an extension marker, for ALL dictionaries; the statement was false of the code before repair 79a5abf) and run_permutation: the dictionary rewrite commutes with EVERY reordering of the type assignments of a module (for all dictionaries, other modules unrestricted), so compiled behaviour cannot depend on assignment order through the rewrite; "
         "module_order_matters is the closed witness of the recorded module-order defect. The rewrite model is tied to the code by dictionary-exact correspondence on every arrangement text; the remaining reorganisations "
         "(inline/extract references, split into modules with IMPORTS, file order, constraints on references) are decided by direct comparison of bytes and decoded values across arrangements rendered from one AST on all 8 codecs, with arrangement 0 also compared with the Lean codec models.",
    note=NOTE_COMMON + "Partial: only assignment reordering is proved; reference inlining/extraction, module splitting and EXTENSIBILITY IMPLIED arrangements are evaluated, not proved (the compiler's reference resolution after pre_process is not modelled). "
         "Known findings C19-components-of-module-order, C19-constraint-on-reference-ignored.",
    technique="Lean 4 proof (rewrite commutes with assignment permutations) + dictionary-exact correspondence + metamorphic arrangement comparison",
    ref="DESIGN.md §4 C19")
CHECKS['C05'] = dict(
    text="Specification encoder S written from X.691 clauses 10-27 in Lean (Asn1Model/X691.lean), validated on the Annex A.1/A.4 worked examples by kernel evaluation; refinement theorems uper_refines / per_refines: "
         "for ALL well-formed types, accepted values and bit positions the code models (Uper/Per, tied byte-exactly to the implementation) emit exactly the bits S prescribes whenever the decidable deviation list is empty; "
         "spec_total; minimality lemmas (constrained whole number width, octet counts, length determinant forms, sorted enumeration root). Each of the 13 deviation predicates has a kernel-checked witness theorem and is a recorded finding. "
         "Stage K compares implementation bytes with S and with M on generated modules x boundary-biased values x {uper, per} in three arrangements and feeds S's octets to the real decoder.",
    note=NOTE_COMMON + "Partial: S is a reading of the standard by the authors of this check (trusted, validated on the Annex examples in the repository); the universe excludes REAL, OID, SET, time types, named-bit trailing-zero stripping; "
         "13 known findings C05-<deviation>.",
    technique="Lean 4 proof (refinement of the code model to an X.691 specification encoder, mutual structural induction) + byte-exact three-way differential check (implementation, code model, specification)",
    ref="DESIGN.md §4 C05")
CHECKS['C20'] = dict(
    text="Lean theorems gser_roundtrip / gser_roundtrip_top / gser_roundtrip_octets: for ALL well-formed types of the model universe, ALL accepted values and BOTH layouts (compact and indented with ANY indent width) the text the GSER writer model emits "
         "is parsed COMPLETELY by an independent RFC 3641 reader written in Lean from the ABNF (gser_parse_render: parseValue (render indent g) = g for every well-formed generic tree; gser_parse_layout for any white-space separator) and maps back, directed by the type, to the canonical abstract value; "
         "gser_enc_total (typed values always encode), gser_injective / gser_different_values_different_texts / gser_injective_octets (equal texts imply equal abstract values, across layouts), gser_indent_irrelevant, gser_reencode; "
         "the recorded deviation (white space around the ':' of a ChoiceValue, not in the ABNF) is a decidable finding predicate: gser_strict_outside_choice proves the strict ABNF reader reads every text without a ChoiceValue, strict_abnf_rejects_choice_text is the witness; "
         "closed witness theorems show that each hypothesis (identifier names, typereference, typed value) is necessary. "
         "The writer model is tied to codecs/gser.py by octet-exact text equality on every generated (module, value, indent in {None,0,2,4}); the Lean reader is run on the implementation's own octets and must return the value; an independent type-directed RFC 3641 reader written in Python "
         "gives a second opinion and covers REAL (0, -0, +-inf, NaN, huge / tiny magnitudes), OBJECT IDENTIFIER, SET, SET OF, named-bit BIT STRING and the time types; injectivity is sampled directly on random and near-miss pairs; "
         "regression vectors for the two repaired defects (empty BIT STRING, quote doubling).",
    note=NOTE_COMMON + "Partial: REAL, OBJECT IDENTIFIER, SET, SET OF, named bits, time types, addition groups are outside the Lean universe (Python reader + direct evaluation only); CPython str(int) / repr(float) / str.replace / str.encode are trusted externals; "
         "the readers accept HT/LF/CR as white space (the indented layout needs new-lines) and white space around ':' (X.680 value notation). Known findings C20-real-exponent-form, C20-choice-colon-white-space, C20-addition-group-mandatory, C20-real-int-overflow.",
    technique="Lean 4 proof (writer model -> generic tree -> layout; RFC 3641 reader written in Lean; parse-of-render by mutual structural induction over trees, tree round trip by structural induction over Ty) + text-exact differential correspondence + two independent readers on the implementation's output",
    ref="DESIGN.md §4 C20")
CHECKS['C09'] = dict(
    text="Lean theorems about the checked model (Asn1Model/CCursor.lean) of the C helper library that asn1tools emits into EVERY generated UPER source: encode_no_fault / decode_no_fault (no sequence of helper calls whose arguments "
         "satisfy the stated preconditions performs an out-of-bounds access, an undefined shift or a signed overflow, for all buffer sizes, contents and cursor positions), short_buffer / short_input (a destination that is too small latches -ENOMEM, "
         "exhausted input latches -EOUTOFDATA, and the latch is frozen), encode_functional / enc_bits (the bits written are exactly the concatenation of the appended bit strings), roundtrip (the decoder helpers read back what the encoder helpers wrote, "
         "for every helper and every interleaving); closed witnesses of the undefined behaviour outside the preconditions. The model is tied to the helper TEXT the real generator emits by running random precondition-respecting call sequences through gcc -O2, "
         "clang ASan+UBSan and the compiled Lean model (identical cursor states, return values and buffers). The per-type statements the generator puts around the helpers are NOT modelled: they are evaluated on every run by translating seeded modules of the documented subset "
         "(two modules with IMPORTS, boundary ranges / sizes / counts, OPTIONAL / DEFAULT patterns, nesting >= 3) with the real generator, compiling them twice (gcc -std=c99 -O2 -Wall -Wextra; clang -fsanitize=address,undefined) together with a test driver derived from the "
         "specification and the PARSED generated header, and comparing encode (exact-size malloc and every smaller size), decode (every struct field dumped), every strict prefix, and mutated / random inputs (accepted => re-encode and re-decode identical) with the Python UPER codec; "
         "constructs outside the subset must raise asn1tools.errors.Error.",
    note=NOTE_COMMON + "Partial: per-type generated statements and struct layout are evaluated by compile-and-run, not modelled (the theorems cover the helper library only); gcc 12 / clang 14 / ASan / UBSan trusted; the Python UPER codec is the reference. "
         "Known findings C09-real-dropped, C09-int-range-wider-than-ctype, C09-extensible-choice-enum-no-extension-bit, C09-int-fixed-width-helper-mismatch, C09-int-offset-arithmetic-overflow, C09-length-wraps-in-uint8, "
         "C09-enum-hyphen-keyerror, C09-enum-default-hyphen, C09-size-over-65535-typeerror, C09-recursive-type-recursionerror, C09-bit-string-default-invalid-c, C09-structured-default-invalid-c, C09-c-keyword-member-name, C09-type-name-collision.",
    technique="Lean 4 proof (memory safety, error latch and functional correctness of a checked model of the emitted C helper library) + three-way differential correspondence (gcc, clang sanitizers, Lean) + compile-and-run equivalence of generated programs with the Python codec under ASan/UBSan",
    ref="DESIGN.md §4 C09/C10")
CHECKS['C10'] = dict(
    text="Lean theorems about the checked model (Asn1Model/CCursorOer.lean) of the C helper library emitted into every generated OER source: enc_safety / dec_safety (no helper call sequence respecting the preconditions faults), short_buffer, enc_latched_frozen / dec_latched_frozen, "
         "readTag_terminates, length determinant theorems (append_length_determinant_content, length_determinant_length_correct, roundtrip_lendet), integer / uint round trips, and the generation-time defect as theorems (static_ne_true_iff: get_length_determinant_length is wrong exactly on [1677726, 16777216), static_defect_smallest). "
         "Tied to the emitted helper text by three-way runs (gcc, clang ASan+UBSan, Lean model) and to oer.py's generation-time function by comparing it with the model's staticLenDetLen and with the Python encoder. The per-type generated statements are evaluated, not modelled: seeded modules of the documented OER subset "
         "(as C09 plus REAL binary32/64 and extension additions) are translated, compiled twice and compared with the Python OER codec on encode (all destination sizes), decode (all fields incl. addition presence flags), prefixes and mutated inputs; VERSION SKEW: V2 = V1 + appended additions, the Python V2 bytes (checked equal to the V2 generated C) "
         "are decoded by the V1 generated C and must give the V1 projection; generation-time constants (type_length, value_length, enumerated value length, preamble and bitmap lengths) are compared with the Python codec over boundary values; constructs outside the subset must raise asn1tools.errors.Error.",
    note=NOTE_COMMON + "Partial: per-type generated statements, struct layout and the open-type length arithmetic are evaluated by compile-and-run, not modelled; gcc/clang/sanitizers trusted; the Python OER codec is the reference (values avoid its own recorded defects). "
         "Known findings C10-lendet-typo, C10-int-range-wider-than-ctype, C10-bit-string-5-to-7-octets, C10-length-truncated-before-check, C10-seqof-fixed-size-over-255, C10-enum-unknown-value-accepted, C10-empty-extension-marker-additions-not-skipped, "
         "C10-unknown-additions-after-8k-known, C10-additions-scan-clobbers-element-index, C10-addition-open-type-length, C10-addition-open-type-length-ignored-on-decode, C10-addition-choice-helper-name-collision, C10-addition-name-hyphen, C10-enum-default-hyphen, "
         "C10-recursive-type-recursionerror, C10-bit-string-default-invalid-c, C10-structured-default-invalid-c, C10-c-keyword-member-name, C10-type-name-collision.",
    technique="Lean 4 proof (safety, latch and length-determinant theorems about a checked model of the emitted C helper library; the static length defect as a theorem) + three-way differential correspondence + compile-and-run equivalence and version-skew check of generated programs under ASan/UBSan",
    ref="DESIGN.md §4 C09/C10")
NOT_APPLICABLE = []

TRANSLATOR_TIE = {
    'C01': "TRANSLATOR TIE (harness/py2lean.py regenerates Asn1Model/Translated.lean from /repo's source on every run): OBJECT IDENTIFIER subidentifier encode/decode round trip and X.690 8.19.2 shape, "
           "and lowest_set_bit, proved directly on the translated code (Properties/C01t.lean); the bit buffer classes per.Encoder/Decoder, oer.Encoder/Decoder are validated against reference oracles on call sequences.",
    'C03': "TRANSLATOR TIE: ber.encode_tag / ber.encode_length_definite translated from the current source are proved equal to the model functions of der_tlv_shape (Properties/C03t.lean).",
    'C05': "TRANSLATOR TIE: the Python classes per.Encoder (big-integer bit buffer with 4096-bit chunks) and per.Decoder are translated statement by statement from the current source on every run and proved, for ALL states and arguments, "
           "to refine the bit-list primitives of the code models (Properties/C05t.lean, C05u.lean: 33 theorems); independent reference oracles search call sequences for a failing input when a bridge breaks.",
    'C06': "TRANSLATOR TIE: oer.encode_tag and the classes oer.Encoder / oer.Decoder translated from the current source refine the octet primitives of the code model (Properties/C06t.lean, C06u.lean: 21 theorems).",
    'C09': "TRANSLATOR TIE: the generation-time predicate does_bits_match_range is translated from the source (Properties/C09t.lean).",
    'C10': "TRANSLATOR TIE: get_length_determinant_length translated from the current source is proved equal to the model's staticLenDetLen, about which the defect theorems are stated (Properties/C10t.lean).",
    'C15': "TRANSLATOR TIE: ber.encode_tag / ber.encode_length_definite translated from the current source equal Ber.encTag / Ber.encLength for every tag number and every length below 256^127 "
           "(statement refuted at 256^127, Properties/C15t.lean).",
    'C08': "The decoder classes per.Decoder / oer.Decoder are validated on call sequences against reference readers (never more bits consumed than present; OutOfDataError beyond the end).",
    'C16': "The translated decoder classes (Properties/C05u.lean, C06u.lean) prove that every read beyond the end of the input is OutOfDataError for every state and width; validated on call sequences.",
}
TECH_SUFFIX = ' + translator tie (Python source -> Lean definitions regenerated on every run, bridge theorems, translator validation against the running code)'


def main():
    for pid, extra in TRANSLATOR_TIE.items():
        CHECKS[pid]['text'] = CHECKS[pid]['text'].rstrip() + ' ' + extra
        if pid not in ('C08', 'C16'):
            CHECKS[pid]['technique'] = CHECKS[pid]['technique'] + TECH_SUFFIX
    props = [json.loads(l)['id'] for l in open(os.path.join(HERE, 'properties.jsonl'))]
    checks = []
    for pid in props:
        if pid not in CHECKS:
            continue
        c = CHECKS[pid]
        checks.append({
            'property_id': pid,
            'quick_cmd': './check %s --tier quick' % pid,
            'thorough_cmd': './check %s --tier thorough' % pid,
            'evidence_file': 'evidence/%s.json' % pid,
            'replay_cmd_template': './check %s --replay {path}' % pid,
            'engine': 'lean-model+correspondence',
            'level_claimed': {'category': c.get('category', 'proof'), 'text': c['text'], 'design_ref': c['ref']},
            'level_note': c['note'],
            'technique': c['technique'],
        })
    na = list(NOT_APPLICABLE)
    for pid in props:
        if pid not in CHECKS and not any(n['property_id'] == pid for n in na):
            na.append({'property_id': pid, 'reason': 'check not built yet in this revision (planned, see DESIGN.md §4); not claimed'})
    m = {
        'version': 1,
        'setup_cmd': 'cd lean && lake build Asn1Model Asn1Proofs driver trdriver',
        'hooks': {
            'guard': 'ASN1TOOLS_VERIF',
            'enable': 'no source hooks are needed: instrumentation is installed from the harness at run time (DESIGN.md §2.5)',
            'baseline_off_cmd': 'cd /repo && /venv/bin/python -m pytest -ra -q -p no:cacheprovider --timeout=900 --continue-on-collection-errors',
            'source_commits': [],
            'add_only': True,
        },
        'engines': [{'name': 'lean-model+correspondence', 'path': 'lean/ + harness/', 'serves_properties': [c['property_id'] for c in checks],
                     'kind_free_text': 'Lean 4 model and theorems (lean/), Python harness driving the compiled model and the real asn1tools over one line protocol (harness/)'}],
        'checks': checks,
        'not_applicable': na,
        'notes': 'Every check = stage P (extract tables from /repo, lake build, forbidden-construct grep, #print axioms audit) + stage K (correspondence and direct evaluation of the property on the implementation). See DESIGN.md.',
    }
    with open(os.path.join(HERE, 'MANIFEST.json'), 'w') as f:
        json.dump(m, f, indent=1)
        f.write('\n')

if __name__ == '__main__':
    main()
