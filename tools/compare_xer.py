"""C02 (XER half): compare the Lean model of codecs/xer.py + the independent XML reader with the
real library.

    compare_xer.py <seed> <ntypes> [--mutations K]

For every generated type (4 values each) and indent in {None, 0, 1, 4}:
  E  real `encode('A', v, indent=i)`            ==  model `xenc`            (bytes or error class)
  P  Lean reader `xparse` accepts every real output
  D  model `xdec` of the real output            ==  canonical value  ==  real `decode` of it
  R  real `decode` of the MODEL's document      ==  canonical value
Character strings are drawn from XML-1.0-legal characters without CR (see XML_ALPHABETS).
A second part feeds the characters excluded from that domain through both sides (they must still
agree: same bytes out, same failure / same silently changed value), a third part compares the
Lean reader with expat on randomly mutated documents.
"""
import os
import random
import sys
from collections import Counter

sys.path.insert(0, os.path.dirname(os.path.dirname(os.path.abspath(__file__))))
from harness import gen as G            # noqa: E402
from harness.gen import Gen, module_text, ty_sx, val_sx, canon_py   # noqa: E402
from harness import impl, core          # noqa: E402
from xml.etree import ElementTree       # noqa: E402

# XML 1.0 `Char` minus CR:  TAB, LF, 0x20..0xD7FF, 0xE000..0xFFFD, 0x10000..0x10FFFF
XML_ALPHABETS = {
    'IA5String': [chr(c) for c in [9, 10] + list(range(32, 128))],
    'UTF8String': [chr(c) for c in [9, 10] + list(range(32, 128))] +
                  list('åäö€漢𝄞 ߿ࠀ<&>"\'') + [chr(c) for c in (0x80, 0x85, 0x9f, 0xa0, 0xd7ff, 0xe000, 0xfffd,
                                                              0x10000, 0x10ffff, 0x2028, 0xfeff)],
}
EXCLUDED = {
    'IA5String': [chr(c) for c in range(32) if c not in (9, 10)],
    'UTF8String': [chr(c) for c in range(32) if c not in (9, 10)] + ['￾', '￿'],
}
INDENTS = [None, 0, 1, 4]


def classify(r):
    if r[0] == 'ok':
        return 'ok ' + (r[1].hex() or '-')
    return 'err ' + ('Foreign' if r[1].startswith('Foreign') else r[1])


def dec_answer(t, d):
    if d[0] == 'ok':
        try:
            return 'ok ' + val_sx(t, d[1])
        except Exception:
            return 'ok ?? %r' % (d[1],)
    if d[1] in ('Foreign:ParseError', 'Foreign:UnicodeDecodeError'):
        return 'malformed'
    return 'err ' + ('Foreign' if d[1].startswith('Foreign') else d[1])


def show(*a):
    print(*[x if len(str(x)) < 400 else str(x)[:400] + '...' for x in a])


def main():
    seed = int(sys.argv[1]) if len(sys.argv) > 1 else 1
    N = int(sys.argv[2]) if len(sys.argv) > 2 else 300
    nmut = 2000
    if '--mutations' in sys.argv:
        nmut = int(sys.argv[sys.argv.index('--mutations') + 1])
    rng = random.Random(seed)
    m = core.Model()
    saved = dict(G.ALPHABETS)
    G.ALPHABETS.update(XML_ALPHABETS)

    cases = []          # (t, txt, v, indent, real encode result)
    specs = {}
    feats = Counter()
    for i in range(N):
        g = Gen(rng)
        t = g.type()
        txt = module_text([('A', t)])
        st, spec = impl.compile_text(txt, 'xer')
        if st != 'ok':
            print('compile', st, spec)
            continue
        specs[txt] = spec
        for k in G.features(t):
            feats[k] += 1
        for j in range(4):
            v = g.value(t)
            for ind in INDENTS:
                r = impl.encode(spec, 'A', v, indent=ind)
                cases.append((t, txt, v, ind, r))

    bad = Counter()
    total = Counter()

    # ---- E: encoder
    lines = ['xenc\t%s\t%s\t%s' % (ty_sx(t), val_sx(t, v), 'none' if ind is None else ind) for t, txt, v, ind, r in cases]
    ans = m.batch(lines)
    outcome = Counter()
    for (t, txt, v, ind, r), a in zip(cases, ans):
        mine = classify(r)
        outcome[mine.split()[0] + (' ' + mine.split()[1] if mine.startswith('err') else '')] += 1
        total['E'] += 1
        if mine != a:
            bad['E'] += 1
            if bad['E'] < 6:
                show('ENC MISMATCH\n', txt, '\n', v, 'indent', ind, '\n impl ', mine, r[2:], '\n model', a)

    # ---- P / D: the reader and the decoder on the real outputs
    okc = [(t, txt, v, ind, r[1]) for (t, txt, v, ind, r) in cases if r[0] == 'ok']
    pans = m.batch(['xparse\t%s' % (data.hex() or '-') for t, txt, v, ind, data in okc])
    dans = m.batch(['xdec\t%s\t%s' % (ty_sx(t), data.hex() or '-') for t, txt, v, ind, data in okc])
    for (t, txt, v, ind, data), pa, da in zip(okc, pans, dans):
        total['P'] += 1
        if pa != 'ok':
            bad['P'] += 1
            if bad['P'] < 6:
                show('PARSE MISMATCH', data, pa)
        # well-formedness according to an unrelated parser as well
        try:
            ElementTree.fromstring(data.decode('utf-8'))
        except Exception as e:
            bad['P'] += 1
            show('REAL OUTPUT NOT WELL-FORMED', data, e)
        total['D'] += 1
        want = 'ok ' + val_sx(t, canon_py(t, v))
        real = dec_answer(t, impl.decode(specs[txt], 'A', data))
        if not (da == want == real):
            bad['D'] += 1
            if bad['D'] < 6:
                show('DEC MISMATCH\n', txt, '\n', v, 'indent', ind, data, '\n want ', want, '\n impl ', real, '\n model', da)

    # ---- R: real decode of the model's documents
    for (t, txt, v, ind, r), a in zip(cases, ans):
        if not a.startswith('ok '):
            continue
        total['R'] += 1
        data = bytes.fromhex(a[3:] if a[3:] != '-' else '')
        real = dec_answer(t, impl.decode(specs[txt], 'A', data))
        want = 'ok ' + val_sx(t, canon_py(t, v))
        if real != want:
            bad['R'] += 1
            if bad['R'] < 6:
                show('REAL DECODE OF MODEL DOCUMENT\n', txt, '\n', v, data, '\n want', want, '\n impl', real)

    print('seed %d: %d distinct types, %d (type, value, indent) cases; encode outcomes %s' % (seed, len(specs), len(cases), dict(outcome)))
    print('  features:', dict(feats))
    for k, what in (('E', 'encode bytes real == model'), ('P', 'real output accepted by Lean reader (and expat)'),
                    ('D', 'xdec(real output) == canonical value == real decode'),
                    ('R', 'real decode(model document) == canonical value')):
        print('  %s %-55s cases %6d  mismatches %d' % (k, what, total[k], bad[k]))

    # ---- excluded characters: both sides must still agree
    xbad = 0
    xtotal = 0
    kinds = Counter()
    xspecs = {kind: asn_string(kind) for kind in ('IA5String', 'UTF8String')}
    xcases = []
    for kind in ('IA5String', 'UTF8String'):
        t = {'k': 'str', 'kind': kind, 'size': None}
        for ch in EXCLUDED[kind]:
            for s in (ch, 'a' + ch + 'b', ch + ch):
                xcases.append((kind, t, s))
    lines = ['xenc\t%s\t%s\tnone' % (ty_sx(t), val_sx(t, s)) for tn, t, s in xcases]
    ans = m.batch(lines)
    dl = []
    for (tn, t, s), a in zip(xcases, ans):
        r = impl.encode(xspecs[tn], 'A', s)
        mine = classify(r)
        xtotal += 1
        if mine != a:
            xbad += 1
            show('EXCLUDED ENC MISMATCH', repr(s), mine, a)
        dl.append('xdec\t%s\t%s' % (ty_sx(t), r[1].hex()))
    dans = m.batch(dl)
    for (tn, t, s), l, da in zip(xcases, dl, dans):
        data = bytes.fromhex(l.split('\t')[2])
        real = dec_answer(t, impl.decode(xspecs[tn], 'A', data))
        xtotal += 1
        if real != da:
            xbad += 1
            show('EXCLUDED DEC MISMATCH', repr(s), data, real, da)
        if real == 'malformed':
            kinds['encoder output not well-formed (U+%04X)' % ord(s[-1] if len(s) != 3 else s[1])] += 1
        elif real != 'ok ' + val_sx(t, s):
            kinds['value changed by round trip (U+%04X)' % ord(s[-1] if len(s) != 3 else s[1])] += 1
        else:
            kinds['round trips'] += 1
    print('  X excluded characters: model == real on failure too          cases %6d  mismatches %d' % (xtotal, xbad))
    summary = Counter()
    for k, n in kinds.items():
        summary[k.split(' (')[0]] += 1
    print('    outcome per excluded character:', dict(summary))
    print('    value changed:', sorted(k for k in kinds if k.startswith('value')))

    # ---- mutated documents: Lean reader vs expat
    mrng = random.Random(seed * 7919 + 1)
    docs = [data for (t, txt, v, ind, data) in okc if len(data) < 400]
    mut = []
    alphabet = b'<>/&;# \n\tabAB01x]![-?"=\'\r:.' + bytes([0, 11, 127, 0xc3, 0xa5, 0xff])
    while docs and len(mut) < nmut:
        d = bytearray(mrng.choice(docs))
        for _ in range(mrng.choice([1, 1, 1, 2, 3])):
            op = mrng.random()
            pos = mrng.randrange(len(d) + 1)
            if op < 0.35 and pos < len(d):
                del d[pos]
            elif op < 0.7:
                d.insert(pos, mrng.choice(alphabet))
            elif pos < len(d):
                d[pos] = mrng.choice(alphabet)
        mut.append(bytes(d))
    frag = [b'<A>&lt;&gt;&amp;&apos;&quot;</A>', b'<A>&#x41;&#65;</A>', b'<A>&#X41;</A>', b'<A>&#xD800;</A>', b'<A>&#0;</A>',
            b'<A>]]></A>', b'<A>]]]></A>', b'<A>]>]]&gt;</A>', b'<A >x</A >', b'<A\r\n>x</A\t>', b'<A/>', b'<A/ >', b'< A/>',
            b'<A></A><A/>', b'x<A/>', b'<A/>x', b' \n<A/>\r\n ', b'', b'<A>', b'</A>', b'<A></B>', b'<A><B></A></B>', b'<1/>',
            b'<A.-_1/>', b'<-A/>', b'<A>&foo;</A>', b'<A>&amp</A>', b'<A>&;</A>', b'<A>&#;</A>', b'<A>&#x;</A>', b'<A>&#1a;</A>',
            b'\xef\xbb\xbf<A/>', b'<A>\r</A>', b'<A>a\r\nb\rc</A>', b'<A>&#13;</A>', b'<A>&#xFFFE;</A>', b'<A>&#x10FFFF;</A>',
            b'<A>&#x110000;</A>', b'<A>\xc3\xa5</A>', b'<\xc3\xa5/>', b'<A>\xed\xa0\x80</A>', b'<A>\xef\xbf\xbf</A>', b'<A>&#00065;</A>']
    mut += frag
    pans = m.batch(['xparse\t%s' % (d.hex() or '-') for d in mut])
    mc = Counter()
    mbad = 0
    for d, pa in zip(mut, pans):
        try:
            ElementTree.fromstring(d.decode('utf-8'))
            real = 'ok'
        except Exception:
            real = 'malformed'
        mc[(real, pa)] += 1
        if pa == 'unsupported':
            continue
        if pa != real:
            mbad += 1
            if mbad < 10:
                show('READER MISMATCH', d, 'expat', real, 'lean', pa)
    print('  M mutated documents, Lean reader vs expat (unsupported = outside the reader\'s subset): %s  mismatches %d'
          % ({'%s/%s' % k: n for k, n in sorted(mc.items())}, mbad))
    # ---- F: the decoder on foreign documents (perturbed element trees)
    frng = random.Random(seed * 104729 + 7)
    texts = ['', '0', '12', ' 7 ', '+3', '-0', '1_0', 'x', '0101', '012', 'AB', 'abc', 'a b', '\u0663', ' ', '\n ', '0b1', '1 ',
             '--1', '1__0', '_1', 'FF', 'G0', '1\t', '\t-12\n', '00', '-', '+', 'true', '1.0', '0x1', '1e3', '\xa01', 'fF0']
    fcases = []
    pool = [c for c in okc if len(c[4]) < 3000]
    frng.shuffle(pool)
    for (t, txt, v, ind, data) in pool[:nmut]:
        try:
            root = ElementTree.fromstring(data.decode('utf-8'))
        except Exception:
            continue
        for _ in range(frng.choice([1, 1, 2])):
            elems = list(root.iter())
            parents = {c: p for p in elems for c in p}
            e = frng.choice(elems)
            tags = [x.tag for x in elems]
            op = frng.randrange(9)
            if op == 0:
                e.tag = frng.choice(tags + ['zz', 'true', 'false'])
            elif op == 1 and e in parents:
                parents[e].remove(e)
            elif op == 2 and e in parents:
                import copy
                parents[e].insert(frng.randrange(len(parents[e]) + 1), copy.deepcopy(e))
            elif op == 3 and len(e) > 1:
                kids = list(e)
                frng.shuffle(kids)
                e[:] = kids
            elif op == 4:
                e.text = frng.choice(texts) or None
            elif op == 5:
                e[:] = []
            elif op == 6:
                ElementTree.SubElement(e, frng.choice(tags + ['zz', 'true']))
            elif op == 7 and e.text:
                e.text = e.text[:-1] or None
            elif op == 8 and e.text:
                e.text = frng.choice([' ', '\n', '']) + e.text + frng.choice([' ', '\t', ''])
        fcases.append((t, txt, ElementTree.tostring(root)))
    fans = m.batch(['xdec\t%s\t%s' % (ty_sx(t), d.hex() or '-') for t, txt, d in fcases])
    fc = Counter()
    fbad = 0
    for (t, txt, d), a in zip(fcases, fans):
        real = dec_answer(t, impl.decode(specs[txt], 'A', d))
        if a == 'err unmodelled':
            fc['unmodelled'] += 1
            continue
        fc[real.split()[0] + (' ' + real.split()[1] if real.startswith('err') else '')] += 1
        if real != a:
            # known modelling difference: the Lean reader drops white-space-only character data of an
            # element that has child elements (ElementTree keeps it in `.text`); only a character
            # string type decoding an element WITH children can see it
            r2 = ElementTree.fromstring(d.decode('utf-8'))
            for el in r2.iter():
                if len(el) and el.text and not el.text.strip(' \t\n\r'):
                    el.text = None
            if dec_answer(t, impl.decode(specs[txt], 'A', ElementTree.tostring(r2))) == a:
                fc['explained: ws text + children'] += 1
                continue
            fbad += 1
            if fbad < 8:
                show('FOREIGN DOCUMENT MISMATCH\n', txt, '\n', d, '\n impl ', real, '\n model', a)
    print('  F decoder on perturbed documents: real decode == model xdec      cases %6d  mismatches %d  outcomes %s'
          % (len(fcases), fbad, dict(fc)))
    mbad += fbad
    G.ALPHABETS.clear()
    G.ALPHABETS.update(saved)
    allbad = sum(bad.values()) + xbad + mbad
    print('TOTAL mismatches', allbad)
    return 1 if allbad else 0


def asn_string(kind):
    import asn1tools
    return asn1tools.compile_string('M DEFINITIONS AUTOMATIC TAGS ::= BEGIN A ::= %s END' % kind, 'xer')


if __name__ == '__main__':
    sys.exit(main())
