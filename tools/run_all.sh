#!/bin/bash
# runs every registered check (tier from $1, default quick), prints one line per check
cd "$(dirname "$0")/.."
tier=${1:-quick}
for id in $(python3 -c "import json; print(' '.join(c['property_id'] for c in json.load(open('MANIFEST.json'))['checks']))"); do
  t0=$(date +%s)
  out=$(./check $id --tier $tier 2>&1); rc=$?
  echo "$id rc=$rc $(($(date +%s)-t0))s $(echo "$out" | grep -c '^VIOLATION') violations; $(echo "$out" | tail -1)"
  echo "$out" | grep '^VIOLATION' | head -3
done
