#!/bin/bash
# usage: tools/import_seed.sh <Cxx> <n> [srcdir]  -> copies /tmp/so_<Cxx> to seeded/<Cxx>_<n>, verifies independently
cd "$(dirname "$0")/.."
id=$1; n=$2; src=${3:-/tmp/so_$id}
d=seeded/${id}_$n
mkdir -p $d
cp $src/patch.diff $src/demo.py $src/meta.json $d/ || exit 2
tools/verify_seeded.sh $d
