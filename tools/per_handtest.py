"""Hand-written comparison of the real asn1tools aligned PER codec with the Lean model (`per`):
long lengths (fragmentation boundaries), all INTEGER range shapes, alignment inside containers,
exotic constraint shapes, and decoding of truncated / corrupted encodings.

usage: per_handtest.py [codec] [fuzz-seed]"""
import os
import random
import sys
sys.set_int_max_str_digits(0)

sys.path.insert(0, os.path.dirname(os.path.dirname(os.path.abspath(__file__))))
from harness.gen import *          # noqa
from harness import impl, core

codec = sys.argv[1] if len(sys.argv) > 1 else 'per'
seed = int(sys.argv[2]) if len(sys.argv) > 2 else 7
rng = random.Random(seed)

BOOL = {'k': 'bool'}
NULL = {'k': 'null'}


def INT(lo=None, hi=None, ext=False):
    return {'k': 'int', 'lo': lo, 'hi': hi, 'ext': ext, 'con': not (lo is None and hi is None and not ext)}


def OCTS(size=None):
    return {'k': 'octs', 'size': size}


def BITS(size=None):
    return {'k': 'bits', 'size': size}


def STR(kind, size=None):
    return {'k': 'str', 'kind': kind, 'size': size}


def SEQOF(e, size=None):
    return {'k': 'seqof', 'elem': e, 'size': size}


def M(name, t, opt=False, default=None):
    return {'name': name, 't': t, 'opt': opt, 'default': default}


def SEQ(root, ext=None):
    return {'k': 'seq', 'root': root, 'ext': ext}


def CHOICE(root, ext=None):
    return {'k': 'choice', 'root': root, 'ext': ext}


def ENUM(root, ext=None):
    return {'k': 'enum', 'root': root, 'ext': ext}


def after_bits(nbits, t):
    """t preceded by `nbits` BOOLEANs in a SEQUENCE: exercises every start offset"""
    return SEQ([M('p%d' % i, BOOL) for i in range(nbits)] + [M('x', t), M('q', BOOL)])


def wrap_val(nbits, v):
    d = {'p%d' % i: bool(i % 2) for i in range(nbits)}
    d['x'] = v
    d['q'] = True
    return d


cases = []      # (type, value)


def add(t, *values):
    for v in values:
        cases.append((t, v))


def add_off(t, *values, offsets=(0, 1, 3, 7, 8)):
    for v in values:
        cases.append((t, v))
        for k in offsets:
            if k:
                cases.append((after_bits(k, t), wrap_val(k, v)))


LONG = [0, 1, 2, 3, 127, 128, 129, 255, 256, 16383, 16384, 16385, 32767, 32768, 49151, 49152, 65535, 65536, 65537,
        70000, 131072, 140000]

# ---- long lengths -------------------------------------------------------------------------------
for n in LONG:
    data = bytes((i * 7 + 3) & 0xff for i in range(n))
    add_off(OCTS(), data, offsets=(0, 3))
    add(OCTS((0, None, False)), data)
    add(OCTS((0, 70000, False)), data[:70000])
    add(OCTS((0, 65535, False)), data[:65535])
    add(OCTS((0, 65536, False)), data[:65536])
    add(OCTS((1, 5, True)), data)                      # extension: unfragmented length determinant
    add(OCTS((0, 70000, True)), data)
    add_off(BITS(), (data[:(n + 7) // 8], n), offsets=(0, 5))
    add(BITS((0, 70000, False)), (data[:(min(n, 70000) + 7) // 8], min(n, 70000)))
    add(BITS((0, 65535, False)), (data[:(min(n, 65535) + 7) // 8], min(n, 65535)))
    for kind in ('IA5String', 'VisibleString', 'NumericString', 'PrintableString', 'UTF8String'):
        alpha = ALPHABETS[kind]
        s = ''.join(alpha[(i * 5 + 1) % len(alpha)] for i in range(n))
        add_off(STR(kind), s, offsets=(0, 2))
        add(STR(kind, (0, 70000, False)), s[:70000])
        add(STR(kind, (0, 65535, False)), s[:65535])
    add_off(SEQOF(BOOL), [bool((i * i) & 4) for i in range(n)], offsets=(0, 6))
    add(SEQOF(NULL), [None] * n)
    add(SEQOF(BOOL, (0, 70000, False)), [bool(i & 2) for i in range(min(n, 70000))])
    add(SEQOF(BOOL, (0, 65535, False)), [bool(i & 2) for i in range(min(n, 65535))])
    add(SEQOF(BOOL, (1, 5, True)), [bool(i & 2) for i in range(n)])
    add(SEQOF(INT(0, 255), None), [(i * 3) & 0xff for i in range(n)])
    if n <= 20000:
        add(SEQOF(INT(0, 6), None), [i % 7 for i in range(n)])
        add(SEQOF(OCTS((0, 3, False)), None), [bytes([i & 0xff] * (i % 4)) for i in range(n)])
        add(SEQOF(STR('NumericString', (0, 3, False))), ['12 '[:i % 4] for i in range(n)])
# fixed sizes at the 64K border
for n in (65535, 65536, 65537):
    add(OCTS((n, n, False)), bytes(n))
    add(BITS((n, n, False)), (bytes((n + 7) // 8), n))
    add(STR('IA5String', (n, n, False)), 'a' * n)
    add(SEQOF(BOOL, (n, n, False)), [True] * n)
# huge unconstrained integers (length determinant of the integer itself)
for nbytes in (126, 127, 128, 129, 16383, 16384, 16385):
    add_off(INT(), 2 ** (8 * nbytes - 9), -2 ** (8 * nbytes - 9), 2 ** (8 * nbytes - 1) - 1, 2 ** (8 * nbytes - 1),
            -2 ** (8 * nbytes - 1), -2 ** (8 * nbytes - 1) - 1, offsets=(0, 3))
    add(INT(0, 5, True), 2 ** (8 * nbytes - 9))
# open types with long contents
for n in (100, 126, 127, 128, 200, 16383, 16384, 20000, 40000):
    add(SEQ([M('a', BOOL)], [M('b', OCTS(), opt=True), M('c', INT(0, 7), opt=True)]),
        {'a': True, 'b': bytes(n), 'c': 3}, {'a': False, 'b': bytes(n)})
    add(CHOICE([('a', BOOL)], [('b', OCTS()), ('c', SEQOF(BOOL))]), ('b', bytes(n)), ('c', [True] * n))

# ---- INTEGER: every range shape at every offset -------------------------------------------------
for lo in (0, 1, -1, -128, 5, 100, -2 ** 31, 2 ** 31, -2 ** 63):
    for w in (1, 2, 3, 7, 8, 15, 16, 17, 127, 128, 129, 254, 255, 256, 257, 258, 65535, 65536, 65537, 65538, 2 ** 24 - 1,
              2 ** 24, 2 ** 24 + 1, 2 ** 24 + 2, 2 ** 32 - 1, 2 ** 32, 2 ** 32 + 1, 2 ** 32 + 2, 2 ** 40 + 1, 2 ** 56, 2 ** 56 + 2,
              2 ** 64, 2 ** 64 + 1, 2 ** 64 + 2, 2 ** 72, 2 ** 128 + 5, 2 ** 200):
        hi = lo + w - 1
        vals = sorted({lo, hi, lo + 1 if w > 1 else lo, hi - 1 if w > 1 else hi, lo + w // 2, lo + min(w - 1, 255),
                       lo + min(w - 1, 256), lo + min(w - 1, 65535), lo + min(w - 1, 65536), lo + min(w - 1, 2 ** 24 - 1),
                       lo + min(w - 1, 2 ** 24), lo + min(w - 1, 2 ** 32 - 1), lo + min(w - 1, 2 ** 32),
                       lo + min(w - 1, 2 ** 64 - 1), lo + min(w - 1, 2 ** 64)})
        add_off(INT(lo, hi), *vals, offsets=(0, 1, 7))
        add_off(INT(lo, hi, True), *(vals + [lo - 1, hi + 1, lo - 70000, hi + 2 ** 40, 0, -1, 127, 128, -128, -129]),
                offsets=(0, 6, 7))
add_off(INT(), *BOUNDARY_INTS)
add_off(INT(3, None), 3, 4, 300, 70000)
add_off(INT(None, 10), 10, -300, 0)
add(INT(3, None, True), 3, 2, 5)
add(INT(None, 3, True), 3, 2, 5)

# ---- OCTET STRING / BIT STRING / strings: alignment rules ----------------------------------------
for size in (None, (0, 0, False), (1, 1, False), (2, 2, False), (3, 3, False), (16, 16, False), (17, 17, False), (0, 1, False),
             (0, 2, False), (1, 2, False), (0, 3, False), (2, 3, False), (0, 254, False), (0, 255, False), (0, 256, False),
             (1, 256, False), (5, 300, False), (0, 65535, False), (1, 65535, False), (1, 65536, False), (0, 65536, False),
             (3, 3, True), (2, 2, True), (0, 2, True), (1, 20, True), (0, 255, True), (0, 300, True), (2, None, True),
             (0, None, True), (2, None, False), (8, 8, False), (24, 24, False), (4, 4, False), (5, 5, False), (9, 9, False)):
    lo, hi, ext = size if size else (0, None, False)
    top = hi if hi is not None else lo + 20
    ns = sorted({lo, min(lo + 1, top), min(lo + 2, top), top if top < 400 else lo + 17})
    if ext:
        ns += [max(lo - 1, 0), top + 1, top + 130]
    for n in ns:
        data = bytes((i * 37 + 11) & 0xff for i in range(n))
        add_off(OCTS(size), data)
        bd = bytearray(data[:(n + 7) // 8])
        add_off(BITS(size), (bytes(bd), n))
        if n % 8:
            bd[-1] |= 1                                # unused bits set
            add(BITS(size), (bytes(bd), n))
        add(BITS(size), (bytes(bd) + b'\xff\xff', n))  # surplus octets
        if n > 8:
            add(BITS(size), (bytes(bd[:-1]), n))       # too few octets: ValueError
        for kind in ('IA5String', 'VisibleString', 'NumericString', 'PrintableString', 'UTF8String'):
            alpha = ALPHABETS[kind]
            add_off(STR(kind, size), ''.join(alpha[(i * 5 + 1) % len(alpha)] for i in range(n)), offsets=(0, 1, 4, 7))
        add_off(SEQOF(BOOL, size), [bool(i & 1) for i in range(n)], offsets=(0, 3))
        add_off(SEQOF(INT(0, 255), size), [i & 0xff for i in range(n)], offsets=(0, 3))
        add_off(SEQOF(OCTS((0, 3, False)), size), [data[:i % 4] for i in range(n)], offsets=(0, 5))
# characters outside the alphabet
add(STR('NumericString'), 'a', '1a', 'å', '1åa', 'aå')
add(STR('PrintableString', (0, 5, False)), '*', 'a*', '€')
add(STR('VisibleString', (2, 2, False)), '\x01a', 'a\x7f')
add(STR('IA5String'), '\x00\x7f', '\x80')
add(STR('UTF8String'), '\ud800', 'a\udfffb', '\U0010ffff\x00')

# ---- ENUMERATED ---------------------------------------------------------------------------------
big_root = [('r%d' % i, i) for i in range(300)]
big_ext = [('x%d' % i, 1000 + i) for i in range(300)]
add_off(ENUM(big_root), 'r0', 'r255', 'r256', 'r299', 'nope')
add_off(ENUM(big_root[:2], big_ext), 'r1', 'x0', 'x63', 'x64', 'x255', 'x256', 'x299', 'nope')
add_off(ENUM([('a', 5)]), 'a')
add_off(ENUM([('a', 5)], []), 'a', 'b')
add_off(ENUM([('c', 9), ('a', 5), ('b', -7)], [('d', 20), ('e', 10)]), 'a', 'b', 'c', 'd', 'e')

# ---- SEQUENCE / CHOICE --------------------------------------------------------------------------
many_adds = lambda k: [M('e%d' % i, INT(0, 300) if i % 2 else BOOL, opt=True) for i in range(k)]
for k in (1, 2, 7, 8, 63, 64, 65, 127, 128):
    t = SEQ([M('a', BOOL)], many_adds(k))
    add_off(t, {'a': True}, {'a': True, 'e0': True}, {'a': False, 'e%d' % (k - 1): (17 if (k - 1) % 2 else False)},
            dict([('a', True)] + [('e%d' % i, (i if i % 2 else True)) for i in range(k)]), offsets=(0, 5))
t = SEQ([M('a', INT(0, 1000), default=7), M('b', OCTS((0, 3, False)), opt=True), M('c', NULL, opt=True)],
        [M('d', NULL, opt=True), M('e', INT(0, 1000), default=9), M('f', SEQ([M('g', INT(), opt=True)], []), opt=True),
         M('h', STR('IA5String')), M('i', CHOICE([('j', INT(0, 70000))], [('k', OCTS((3, 3, False)))]), opt=True)])
add_off(t, {}, {'a': 7}, {'a': 8, 'b': b'ab', 'c': None}, {'a': 8, 'd': None}, {'e': 9}, {'e': 10, 'h': 'x'},
        {'f': {}, 'h': ''}, {'f': {'g': 5}, 'h': 'abc'}, {'h': 'abc', 'i': ('j', 300)}, {'h': 'abc', 'i': ('k', b'abc')},
        {'i': ('k', b'abc')}, {'d': None, 'i': ('k', b'abc')}, {'d': None, 'e': 9, 'f': {'g': -1}, 'h': 'q', 'i': ('j', 0)})
# errors inside additions: EncodeError is swallowed, everything else propagates
t = SEQ([M('a', BOOL)], [M('b', STR('NumericString'), opt=True), M('c', ENUM([('u', 0)]), opt=True),
                         M('d', BITS((1, 2, True)), opt=True), M('e', SEQ([M('z', BOOL)]), opt=True), M('f', BOOL, opt=True)])
add(t, {'a': True, 'b': 'x', 'f': True}, {'a': True, 'f': True, 'c': 'nope'}, {'a': True, 'f': True, 'd': (b'\x00', 5)},
    {'a': True, 'b': '1', 'e': {}, 'f': True}, {'a': True, 'e': {}}, {'a': True, 'b': '12', 'c': 'u', 'd': (b'\x80', 1), 'e': {'z': True}})
for k in (1, 2, 3, 4, 5, 255, 256, 257, 300):
    alts = [('c%d' % i, [BOOL, INT(0, 300), OCTS((0, 4, False)), NULL][i % 4]) for i in range(k)]
    vals = [True, 150, b'abc', None]
    t = CHOICE(alts)
    add_off(t, *[('c%d' % i, vals[i % 4]) for i in sorted({0, 1 % k, k // 2, k - 1, min(k - 1, 255), min(k - 1, 256)})],
            offsets=(0, 1, 7))
    add(t, ('zz', True))
    te = CHOICE(alts, [('d%d' % i, [BOOL, INT(0, 300), OCTS((0, 4, False)), NULL, INT(), STR('IA5String', (3, 3, False))][i % 6])
                       for i in range(70)])
    v2 = [True, 150, b'abc', None, -70000, 'abc']
    add_off(te, ('c0', True), ('c%d' % (k - 1), vals[(k - 1) % 4]), *[('d%d' % i, v2[i % 6]) for i in (0, 1, 2, 3, 4, 5, 62, 63, 64, 65, 69)],
            offsets=(0, 1, 7))
    add(te, ('zz', True))
add(CHOICE([('a', BOOL)], []), ('a', True), ('b', True))
# nesting: alignment relative to the innermost fresh encoder
inner = SEQ([M('f', BOOL), M('o', OCTS())], [M('x', SEQ([M('y', BOOL), M('n', INT())], [M('w', OCTS((3, 3, False)), opt=True)]), opt=True)])
add_off(SEQ([M('a', BOOL), M('b', inner)], [M('c', inner, opt=True)]),
        {'a': True, 'b': {'f': True, 'o': b'ab'}},
        {'a': True, 'b': {'f': True, 'o': b'ab', 'x': {'y': True, 'n': 5}}},
        {'a': True, 'b': {'f': True, 'o': b'ab', 'x': {'y': True, 'n': 5, 'w': b'xyz'}},
         'c': {'f': False, 'o': b'', 'x': {'y': False, 'n': -5, 'w': b'123'}}})
add_off(SEQOF(SEQ([M('f', BOOL), M('o', OCTS((0, 5, False)))]), None),
        [{'f': bool(i & 1), 'o': bytes([i] * (i % 6))} for i in range(12)])
add_off(SEQOF(CHOICE([('a', BOOL), ('b', INT()), ('c', NULL)], [('d', INT(0, 255))]), (0, 10, True)),
        [('a', True), ('b', 5), ('c', None), ('d', 200)], [('d', 1)] * 12, [])

add(SEQ([M('a', BOOL), M('b', INT(0, 5))]), {'a': True}, {'b': 1}, {})
# unknown alternative / short BIT STRING anywhere in the value: the type checker's EncodeError comes first
t = SEQ([M('a', STR('IA5String', (1, 2, True))), M('b', CHOICE([('u', BOOL)], [('w', NULL)]))],
        [M('c', CHOICE([('u', BOOL)]), opt=True), M('d', BITS(), opt=True), M('e', SEQOF(CHOICE([('u', BOOL)])), opt=True)])
add(t, {'a': 'abc', 'b': ('zz', True)}, {'a': 'a', 'b': ('u', True), 'c': ('zz', True)}, {'a': 'a', 'b': ('w', None), 'd': (b'\x00', 9)},
    {'a': 'abc', 'b': ('u', True), 'c': ('u', True), 'd': (b'\x00', 8)}, {'a': 'a', 'b': ('u', True), 'e': [('u', True), ('zz', True)]},
    {'a': 'abc', 'b': ('u', True), 'e': [('zz', True)]})

# ---- random types with exotic shapes and long lengths ---------------------------------------------
NRANDOM = int(os.environ.get('NRANDOM', '600'))
for i in range(NRANDOM):
    g = Gen(rng, Opts(big_lengths=0.25, allow_exotic=0.5) if i % 2 else Opts(allow_exotic=0.3))
    t = g.type()
    for j in range(3):
        cases.append((t, g.value(t)))

# ---- run ---------------------------------------------------------------------------------------
m = core.Model()
compiled = {}


def spec_of(t):
    key = ty_sx(t)
    if key not in compiled:
        txt = module_text([('A', t)])
        st, spec = impl.compile_text(txt, codec)
        if st != 'ok':
            raise SystemExit('compile failed: %s %s\n%s' % (st, spec, txt))
        compiled[key] = spec
    return compiled[key]


def fmt_enc(r):
    if r[0] == 'ok':
        return 'ok ' + (r[1].hex() or '-')
    return 'err ' + ('Foreign' if r[1].startswith('Foreign') else r[1])


def fmt_dec(t, d):
    if d[0] == 'ok':
        try:
            return 'ok ' + val_sx(t, d[1])
        except Exception:
            return 'ok ?? %r' % (d[1],)
    return 'err ' + ('Foreign' if d[1].startswith('Foreign') else d[1])


def val_sx_safe(t, v):
    try:
        return val_sx(t, v)
    except Exception:
        return None


print('cases', len(cases))
enc_lines, enc_cases = [], []
for t, v in cases:
    vs = val_sx_safe(t, v)
    if vs is None:
        raise SystemExit('cannot render %r' % (v,))
    vs = vs.replace(' ?)', ' T)')      # unknown CHOICE alternative: dummy payload
    enc_cases.append((t, v))
    enc_lines.append('enc\t%s\t%s\t%s' % (codec, ty_sx(t), vs))
answers = m.batch(enc_lines)
bad = 0
unmodelled = 0
from collections import Counter
cnt = Counter()
dec_jobs = []       # (t, data, tag)
for (t, v), a, l in zip(enc_cases, answers, enc_lines):
    r = impl.encode(spec_of(t), 'A', v, limit=120)
    mine = fmt_enc(r)
    cnt[mine.split()[0] + ' ' + (mine.split()[1] if mine.startswith('err') else '')] += 1
    if a == 'err unmodelled':
        unmodelled += 1
        print('UNMODELLED enc', l[:150], '| impl', mine[:80])
        continue
    if mine != a:
        bad += 1
        if bad < 15:
            print('ENC MISMATCH', l[:200], '\n  impl ', mine[:200], r[2:], '\n  model', a[:200])
    if r[0] == 'ok':
        dec_jobs.append((t, r[1], 'exact'))
        data = r[1]
        if len(data) <= 600:
            # truncations and corruptions of genuine encodings
            for k in sorted({0, 1, 2, len(data) // 2, len(data) - 1}):
                if 0 <= k < len(data):
                    dec_jobs.append((t, data[:k], 'trunc'))
            for _ in range(4):
                if data:
                    b = bytearray(data)
                    i = rng.randrange(len(b))
                    b[i] ^= 1 << rng.randrange(8)
                    if rng.random() < 0.3:
                        b[rng.randrange(len(b))] = rng.choice([0, 0xff, 0x80, 0xc1, 0xc4, 0xc5, 0x7f])
                    dec_jobs.append((t, bytes(b), 'flip'))
            dec_jobs.append((t, data + b'\x00', 'extra'))
print('enc mismatches', bad, 'unmodelled', unmodelled, 'of', len(enc_cases), dict(cnt))

dec_lines = ['dec\t%s\t%s\t%s' % (codec, ty_sx(t), data.hex() or '-') for t, data, tag in dec_jobs]
answers = m.batch(dec_lines)
bad = 0
unmodelled = 0
cnt = Counter()
for (t, data, tag), a, l in zip(dec_jobs, answers, dec_lines):
    d = impl.decode(spec_of(t), 'A', data, limit=120)
    mine = fmt_dec(t, d)
    cnt[tag + ' ' + mine.split()[0] + ' ' + (mine.split()[1] if mine.startswith('err') else '')] += 1
    if a == 'err unmodelled':
        unmodelled += 1
        print('UNMODELLED dec', tag, l[:150], '| impl', mine[:80])
        continue
    if mine != a:
        bad += 1
        if bad < 15:
            print('DEC MISMATCH', tag, l[:200], '\n  impl ', mine[:200], d[2:], '\n  model', a[:200])
print('dec mismatches', bad, 'unmodelled', unmodelled, 'of', len(dec_jobs), dict(cnt))
