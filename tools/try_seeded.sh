#!/bin/bash
# usage: tools/try_seeded.sh <seeded-dir> <Cxx> [tier]   -> runs ./check Cxx against a scratch tree with the patch applied
# (never touches /repo; evidence and replays go to a scratch directory)
d=$(realpath "$1"); prop=$2; tier=${3:-quick}; id=$(basename "$d"); wt=/tmp/ms_$id
git -C /repo worktree remove --force $wt 2>/dev/null; rm -rf $wt
git -C /repo worktree add -f $wt HEAD -q || exit 2
( cd $wt && git apply $d/patch.diff ) || { echo "patch does not apply"; git -C /repo worktree remove --force $wt; exit 2; }
out=/tmp/ms_out_$id; rm -rf $out; mkdir -p $out
cd /verif
ASN1TOOLS_REPO=$wt VERIF_OUT=$out VERIF_SEED=${VERIF_SEED:-0} ./check $prop --tier $tier --skip-stage-p > $out/log.txt 2>&1
rc=$?
grep -c "^VIOLATION" $out/log.txt | sed "s/^/$id $prop rc=$rc violations=/"
grep "^VIOLATION" $out/log.txt | head -3
tail -1 $out/log.txt
git -C /repo worktree remove --force $wt
