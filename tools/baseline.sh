#!/bin/bash
# Runs the repository's pinned test suite (guard OFF) and compares with /root/.vp/BASELINE.json stable_pass.
out=${1:-/tmp/baseline.junit.xml}
cd /repo && /venv/bin/python -m pytest -ra -q -p no:cacheprovider --timeout=900 --continue-on-collection-errors --junitxml=$out > /tmp/baseline.log 2>&1
/venv/bin/python - "$out" <<'PY'
import json, sys, xml.etree.ElementTree as ET
base = json.load(open('/root/.vp/BASELINE.json'))
stable = set(base['stable_pass'])
passed = set()
for tc in ET.parse(sys.argv[1]).getroot().iter('testcase'):
    name = '%s::%s' % (tc.get('classname'), tc.get('name'))
    if not any(ch.tag in ('failure', 'error', 'skipped') for ch in tc):
        passed.add(name)
missing = sorted(stable - passed)
print('stable_pass=%d passed_now=%d missing=%d' % (len(stable), len(passed & stable), len(missing)))
for m in missing:
    print('MISSING', m)
sys.exit(1 if missing else 0)
PY
