"""C06: compare the S-level OER specification (lean/Asn1Model/X696.lean, driver op `spec oer`) with
the real asn1tools OER codec.

    /venv/bin/python tools/compare_spec_oer.py <seed> <ntypes>      random types, 4 values each
    /venv/bin/python tools/compare_spec_oer.py hand                 hand-made boundary cases

For every case:
  * ENCODER: if the specification reports no deviation (`dev=()`), the real encoder must produce exactly
    the specification's octets (or both must refuse the value).  Anything else is UNEXPLAINED.
  * DECODER: the specification's octets are fed to the real decoder, which must return the value
    (DEFAULT components filled in, unused bits cleared).  Checked for every case where the specification
    yields octets; a failure with `dev=()` is UNEXPLAINED.
  * cases with deviations are counted per deviation name, split into "code differs from standard" and
    "code happens to agree".
"""
import random
import sys
import os
from collections import Counter

sys.path.insert(0, os.path.dirname(os.path.dirname(os.path.abspath(__file__))))
from harness.gen import *          # noqa
from harness import impl, core     # noqa


# --------------------------------------------------------------------------- hand-made cases
def I(lo, hi, ext=False):
    return {'k': 'int', 'lo': lo, 'hi': hi, 'ext': ext, 'con': not (lo is None and hi is None and not ext)}


def SZ(lo, hi, ext=False):
    return (lo, hi, ext)


def M(name, t, opt=False, default=None):
    return {'name': name, 't': t, 'opt': opt, 'default': default}


def hand_cases():
    cases = []

    def add(t, *vals):
        for v in vals:
            cases.append((t, v))
    # integers on both sides of every fixed-width threshold
    for p in (8, 16, 32, 64):
        top = 2 ** p
        for hi in (top - 2, top - 1, top, top + 1):
            for lo in (0, 1):
                add(I(lo, hi), lo, hi, min(hi, 255), min(hi, 256))
            add(I(0, hi, True), 0, hi, -1, hi + 1)
    for p in (7, 15, 31, 63):
        b = 2 ** p
        for lo, hi in ((-b, b - 1), (-b - 1, b - 1), (-b, b), (-b + 1, b - 2), (-1, b - 1), (-1, b), (-b, 0), (-b - 1, 0)):
            add(I(lo, hi), lo, hi, -1, 0)
            add(I(lo, hi, True), lo, hi, lo - 1, hi + 1, -1)
    # semi-constrained and unconstrained
    for lo in (0, 1, 3, 127, 128, 255, 256, 1000, 2 ** 64, -1, -128, -129):
        add(I(lo, None), lo, lo + 1, max(lo, 127), max(lo, 128), max(lo, 255), max(lo, 256), max(lo, 65535), max(lo, 65536),
            max(lo, 2 ** 32 - 1), max(lo, 2 ** 32), max(lo, 2 ** 64 - 1), max(lo, 2 ** 64), max(lo, 2 ** 1000))
    for hi in (-129, -1, 0, 10, 1000, 2 ** 64):
        add(I(None, hi), hi, hi - 1, min(hi, -128), min(hi, -129), min(hi, -32768), min(hi, -32769), min(hi, -2 ** 63), min(hi, -2 ** 63 - 1),
            min(hi, 0), min(hi, 127), min(hi, 128))
    add(I(None, None), *BOUNDARY_INTS, -2 ** 1000, 2 ** 1000)
    add(I(None, None, False), 0)
    # negative values under extensible constraints
    for lo, hi in ((0, 10), (0, 255), (5, 300), (-5, 5), (0, 2 ** 64)):
        add(I(lo, hi, True), -1, -128, -129, -32769, lo, hi, hi + 1, 2 ** 70, -2 ** 70)
    # enumerations
    vals = [-2 ** 31, -32769, -32768, -129, -128, -1, 0, 1, 126, 127, 128, 129, 255, 256, 32767, 32768, 65535, 65536, 2 ** 31, 2 ** 64]
    et = {'k': 'enum', 'root': [('e%d' % i, v) for i, v in enumerate(vals)], 'ext': None}
    add(et, *[n for n, _ in et['root']])
    et2 = {'k': 'enum', 'root': [('r0', 0), ('r1', 5)], 'ext': [('x0', 127), ('x1', 128), ('x2', 40000)]}
    add(et2, 'r0', 'r1', 'x0', 'x1', 'x2')
    # strings: multi-byte UTF-8 under SIZE; lengths around the length-determinant thresholds
    u = lambda s: {'k': 'str', 'kind': 'UTF8String', 'size': s}
    add(u(SZ(2, 2)), 'ab', 'åä', '€€', '𝄞𝄞', 'a€')
    add(u(SZ(2, 2, True)), 'ab', 'åä', 'åäö')
    add(u(SZ(1, 2)), 'a', 'åä')
    add(u(SZ(0, 0)), '')
    add(u(None), '', 'a', 'å' * 63, 'å' * 64, 'a' * 127, 'a' * 128)
    for n in (0, 1, 127, 128, 255, 256, 65535, 65536):
        for kind in ('IA5String', 'VisibleString', 'PrintableString', 'NumericString'):
            ch = '7'
            add({'k': 'str', 'kind': kind, 'size': None}, ch * n)
            if n:
                add({'k': 'str', 'kind': kind, 'size': SZ(n, n)}, ch * n)
                add({'k': 'str', 'kind': kind, 'size': SZ(n, n, True)}, ch * n, ch * (n + 1))
                add({'k': 'str', 'kind': kind, 'size': SZ(n - 1, n)}, ch * n)
        add({'k': 'octs', 'size': None}, b'\xa5' * n)
        add({'k': 'octs', 'size': SZ(n, n)}, b'\xa5' * n)
        add({'k': 'octs', 'size': SZ(n, n, True)}, b'\xa5' * n, b'\xa5' * (n + 1))
        add({'k': 'octs', 'size': SZ(0, n + 1)}, b'\xa5' * n)
        add({'k': 'seqof', 'elem': {'k': 'null'}, 'size': None}, [None] * n)
        add({'k': 'seqof', 'elem': {'k': 'bool'}, 'size': SZ(n, n)}, [True] * n)
        add({'k': 'seqof', 'elem': I(0, 255), 'size': SZ(0, n, True)}, [7] * n, [7] * (n + 1))
    for n in (0, 1, 7, 8, 9, 15, 16, 17, 1007, 1008, 1009, 1015, 1016, 1017, 2039, 2040, 2041, 8 * 65535 - 8, 8 * 65535 - 9, 8 * 65536):
        nb = (n + 7) // 8
        dirty = (b'\xff' * nb, n)
        add({'k': 'bits', 'size': None}, dirty)
        add({'k': 'bits', 'size': SZ(n, n)}, dirty)
        add({'k': 'bits', 'size': SZ(n, n, True)}, dirty, (b'\xff' * (nb + 1), n + 1))
        add({'k': 'bits', 'size': SZ(0, n + 3)}, dirty)
    # SEQUENCE: preamble widths
    for k in (0, 1, 6, 7, 8, 9, 15, 16, 17):
        for ext in (None, []):
            root = [M('o%d' % i, {'k': 'bool'}, opt=True) for i in range(k)] + [M('z', I(0, 255))]
            t = {'k': 'seq', 'root': root, 'ext': ext}
            add(t, {'z': 1}, dict({'o%d' % i: bool(i % 2) for i in range(k)}, z=2), dict({'o%d' % i: True for i in range(0, k, 3)}, z=3))
    root = [M('a', {'k': 'bool'}, default=True), M('b', I(0, 7), default=5), M('c', {'k': 'null'}, opt=True),
            M('d', {'k': 'bits', 'size': None}, default=(b'\xa0', 3))]
    add({'k': 'seq', 'root': root, 'ext': None}, {}, {'a': True, 'b': 5}, {'a': False, 'b': 4, 'c': None}, {'d': (b'\xbf', 3)}, {'d': (b'\xa0', 4)})
    # SEQUENCE: 1, 7, 8, 9, 15, 16, 17, 63, 64 additions
    for n in (1, 2, 7, 8, 9, 15, 16, 17, 63, 64):
        ext = [M('x%d' % i, I(0, 255) if i % 2 else {'k': 'null'}, opt=True) for i in range(n)]
        t = {'k': 'seq', 'root': [M('a', {'k': 'bool'}, opt=True)], 'ext': ext}
        add(t, {}, {'x0': None}, {'x%d' % (n - 1): 9 if (n - 1) % 2 else None}, {'a': True, 'x0': None, 'x%d' % (n - 1): 9 if (n - 1) % 2 else None},
            dict({'x%d' % i: (i if i % 2 else None) for i in range(n)}, a=False))
    # additions: DEFAULT equal / not equal, zero-length encodings, mandatory additions absent, big open types
    ext = [M('d', I(None, None), default=5), M('n', {'k': 'null'}, opt=True), M('s', {'k': 'octs', 'size': None}, opt=True),
           M('q', {'k': 'seqof', 'elem': {'k': 'null'}, 'size': None}, opt=True)]
    t = {'k': 'seq', 'root': [M('a', {'k': 'bool'})], 'ext': ext}
    add(t, {'a': True}, {'a': True, 'd': 5}, {'a': True, 'd': 6}, {'a': True, 'n': None}, {'a': True, 'd': 5, 'n': None},
        {'a': True, 's': b''}, {'a': True, 's': b'\x00' * 127}, {'a': True, 's': b'\x00' * 126}, {'a': True, 's': b'\x00' * 65535},
        {'a': True, 'q': []}, {'a': False, 'd': 7, 'n': None, 's': b'x', 'q': [None]})
    ext = [M('m0', {'k': 'bool'}, opt=True), M('m1', {'k': 'bool'}), M('m2', I(0, 255), opt=True)]
    t = {'k': 'seq', 'root': [M('a', {'k': 'bool'})], 'ext': ext}
    add(t, {'a': True}, {'a': True, 'm0': True}, {'a': True, 'm2': 255}, {'a': True, 'm0': True, 'm2': 255}, {'a': True, 'm1': False},
        {'a': True, 'm0': False, 'm1': True, 'm2': 0})
    ext = [M('m0', {'k': 'bool'}, opt=True), M('m1', {'k': 'bool'})]
    add({'k': 'seq', 'root': [], 'ext': ext}, {}, {'m0': True}, {'m1': True}, {'m0': True, 'm1': True})
    add({'k': 'seq', 'root': [], 'ext': None}, {})
    add({'k': 'seq', 'root': [], 'ext': []}, {})
    # fixed UTF8 inside an addition and inside a list
    add({'k': 'seq', 'root': [], 'ext': [M('u', u(SZ(1, 1)), opt=True)]}, {'u': 'a'}, {'u': 'å'}, {})
    add({'k': 'seqof', 'elem': u(SZ(1, 1)), 'size': None}, [], ['a'], ['å', 'b'])
    # CHOICE: tag numbers around 63 / 127 / 128, root and additions
    for n in (1, 2, 62, 63, 64, 65, 127, 128, 129, 130):
        t = {'k': 'choice', 'root': [('c%d' % i, I(0, 255)) for i in range(n)], 'ext': None}
        add(t, ('c0', 1), ('c%d' % (n - 1), 2), ('c%d' % (n // 2), 3))
        t = {'k': 'choice', 'root': [('c%d' % i, I(0, 255)) for i in range(n)],
             'ext': [('d0', {'k': 'null'}), ('d1', {'k': 'octs', 'size': None}), ('d2', I(0, 65535))]}
        add(t, ('c%d' % (n - 1), 2), ('d0', None), ('d1', b''), ('d1', b'\x01' * 127), ('d1', b'\x01' * 128), ('d2', 513))
    return cases


# --------------------------------------------------------------------------- comparison
def deep_canon(t, v):
    try:
        return canon_py(t, v)
    except Exception:
        return ('??', repr(v))


def short(x, n=160):
    s = repr(x)
    return s if len(s) <= n else s[:n] + '...'


def run(cases, label, verbose=6):
    """cases: list of (type-ast, python value)"""
    m = core.Model()
    lines = []
    reals = []
    specs = {}
    for t, v in cases:
        txt = module_text([('A', t)])
        st, spec = impl.compile_text(txt, 'oer')
        if st != 'ok':
            print('COMPILE', st, spec, txt)
            reals.append(None)
        else:
            reals.append((txt, spec, impl.encode(spec, 'A', v, limit=120)))
        lines.append('spec\toer\t%s\t%s' % (ty_sx(t), val_sx(t, v)))
        lines.append('rt\toer\t%s\t%s' % (ty_sx(t), val_sx(t, v)))
    ans = m.batch(lines)
    stat = Counter()
    per_dev = {}
    unexplained = []
    for idx, ((t, v), real) in enumerate(zip(cases, reals)):
        if real is None:
            stat['compile-failed'] += 1
            continue
        txt, spec, r = real
        a = ans[2 * idx]
        if r[0] == 'err' and r[1] == 'Timeout':
            stat['real encoder timed out (not compared)'] += 1
            continue
        typed = 'hasType=T' in ans[2 * idx + 1]
        stat['cases'] += 1
        stat['typed' if typed else 'ill-typed'] += 1
        head, dev = a.split(' dev=(')
        dev = dev.rstrip(')').split()
        s_ok = head.startswith('ok ')
        s_bytes = bytes.fromhex(head[3:].replace('-', '')) if s_ok else None
        r_ok = r[0] == 'ok'
        same = (s_ok and r_ok and r[1] == s_bytes) or (not s_ok and not r_ok)
        # decoder: the standard's octets must decode to the value
        dec_ok = None
        if s_ok:
            d = impl.decode(spec, 'A', s_bytes, limit=120)
            dec_ok = d[0] == 'ok' and deep_canon(t, d[1]) == deep_canon(t, v)
        if not dev:
            stat['dev=()'] += 1
            if same:
                stat['dev=() encoder agrees'] += 1
            else:
                unexplained.append(('ENC', txt, v, a, r))
            if s_ok:
                stat['dev=() decoder checked'] += 1
                if dec_ok:
                    stat['dev=() decoder agrees'] += 1
                else:
                    unexplained.append(('DEC', txt, v, a, d))
        else:
            stat['dev!=()'] += 1
            for n in dev:
                c = per_dev.setdefault(n, Counter())
                c['cases'] += 1
                c['code == standard' if same else 'code != standard'] += 1
                if s_ok:
                    c['decoder returns value' if dec_ok else 'decoder does NOT return value'] += 1
                if not same and 'example' not in c:
                    c['example'] = 1
                    if verbose:
                        print('  [%s] %s | value %s | code %s | standard %s' % (
                            n, ' '.join(txt.split()[6:-1])[:200], short(v, 80),
                            r[1].hex() if r_ok else 'err ' + r[1], head))
    print('== %s: %s' % (label, dict(stat)))
    for n, c in sorted(per_dev.items()):
        c.pop('example', None)
        print('   deviation %-26s %s' % (n, dict(c)))
    print('   UNEXPLAINED: %d' % len(unexplained))
    for u in unexplained[:verbose]:
        print('   !!', u[0], '\n', u[1], '\n   value', short(u[2]), '\n   spec ', u[3][:300], '\n   real ', short(u[4], 300))
    return stat, per_dev, unexplained


def main():
    if len(sys.argv) > 1 and sys.argv[1] == 'hand':
        cases = hand_cases()
        _, _, un = run(cases, 'hand-made boundary cases')
        sys.exit(1 if un else 0)
    seed = int(sys.argv[1]) if len(sys.argv) > 1 else 1
    n = int(sys.argv[2]) if len(sys.argv) > 2 else 300
    rng = random.Random(seed)
    cases = []
    for i in range(n):
        g = Gen(rng, Opts(big_lengths=0.03) if i % 5 == 0 else None)
        t = g.type()
        for j in range(4):
            cases.append((t, g.value(t)))
    _, _, un = run(cases, 'seed %d, %d types' % (seed, n))
    sys.exit(1 if un else 0)


if __name__ == '__main__':
    main()
