"""C09/C10: differential test of the Lean model of the C HELPER LIBRARY against the helper text emitted by the REAL
asn1tools C generator.  The code lives in harness/chelpers.py (also called by ./check C09 / C10); this is the command line.

    /venv/bin/python tools/compare_chelpers.py <seed> <nsequences> [uper|oer|both]
    /venv/bin/python tools/compare_chelpers.py ub
    /venv/bin/python tools/compare_chelpers.py lendefect
"""
import os
import sys

sys.path.insert(0, os.path.dirname(os.path.dirname(os.path.abspath(__file__))))
from harness import chelpers   # noqa: E402

if __name__ == '__main__':
    sys.exit(chelpers.main(sys.argv))
