"""JER: real asn1tools vs the Lean model (Asn1Model/Json.lean + Jer.lean) on generated types / values.

usage: compare_jer.py <seed> <ntypes>

For every generated type (4 values each):
  E  real encode(name, v, indent=i) octets == model `jenc`  for i in {None, 0, 1, 4}
  P  the independent RFC 8259 reader (`jparse`) accepts every real output
  D  model `jdec` of the real output == real decode of it  (and both == the JER canonical form of v:
     counted separately as property violations of the real code, not as model mismatches)
  R  real decode of the MODEL's document == model `jdec` of it
  M  mutated documents (white space, other escape styles, raw UTF-8, unknown / duplicate / missing members,
     unknown names, wrong shapes, textual corruption): model `jdec` == real decode, `malformed` <=> the
     real code raises JSONDecodeError / UnicodeDecodeError (modulo the documented laxities of json.loads)
"""
import json
import os
import random
import re
import sys
from collections import Counter

sys.path.insert(0, os.path.dirname(os.path.dirname(os.path.abspath(__file__))))
from harness import gen as G
from harness.gen import Gen, module_text, ty_sx, val_sx
from harness import impl, core

# strings: markup-significant and non-ASCII characters, quotes, backslashes, control characters,
# first / last code points of every UTF-8 length and of the surrogate gap, non-characters
G.ALPHABETS['UTF8String'] = ([chr(c) for c in range(32, 127)] + list('"\\/<>&\'') * 3 +
                             [chr(c) for c in range(0, 32)] +
                             list('\x7f\x80\xa0åäö€漢𝄞 ߿ࠀ￿￾퟿  ﻿\U00010000\U0010ffff\U0001f600'))

seed = int(sys.argv[1]) if len(sys.argv) > 1 else 1
N = int(sys.argv[2]) if len(sys.argv) > 2 else 300
rng = random.Random(seed)
m = core.Model()
INDENTS = [None, 0, 1, 4]


class Unprintable(Exception):
    pass


ATOM = re.compile(r'^[A-Za-z0-9_\-]+$')


def dyn(v):
    """a Python object as json.loads returns it -> S-expression of the model's `pyVal`"""
    if v is None:
        return 'none'
    if v is True:
        return 'T'
    if v is False:
        return 'F'
    if isinstance(v, int):
        return '(i %d)' % v
    if isinstance(v, str):
        return '(s' + ''.join(' %d' % ord(c) for c in v) + ')'
    if isinstance(v, list):
        return '(lst' + ''.join(' ' + dyn(e) for e in v) + ')'
    if isinstance(v, dict):
        for k in v:
            if not ATOM.match(k):
                raise Unprintable('key')
        return '(rec' + ''.join(' (%s %s)' % (k, dyn(e)) for k, e in v.items()) + ')'
    raise Unprintable(type(v).__name__)


def pv(t, v):
    """what the real decoder returned -> S-expression, directed by the type but faithful to the Python
    object (the JER decoder returns anything for the pass-through types)"""
    k = t['k']
    if k == 'null':
        return 'N' if v is None else dyn(v)
    if k in ('bool', 'int', 'str'):
        return dyn(v)
    if k == 'enum':
        return 'none' if v is None else '(e %s)' % v
    if k == 'octs':
        return '(o %s)' % (bytes(v).hex() or '-')
    if k == 'bits':
        if not (isinstance(v[1], int) and not isinstance(v[1], bool) and v[1] >= 0):
            raise Unprintable('bit length')
        return '(b %s %d)' % (bytes(v[0]).hex() or '-', v[1])
    if k == 'seqof':
        return '(lst' + ''.join(' ' + pv(t['elem'], e) for e in v) + ')'
    if k == 'seq':
        parts = []
        for mm in t['root'] + (t['ext'] or []):
            if mm['name'] in v:
                parts.append('(%s %s)' % (mm['name'], pv(mm['t'], v[mm['name']])))
        return '(rec' + ''.join(' ' + p for p in parts) + ')'
    if k == 'choice':
        n, inner = v
        if n is None:
            return '(ch none none)'
        for an, at in t['root'] + (t['ext'] or []):
            if an == n:
                return '(ch %s %s)' % (n, pv(at, inner))
    raise Unprintable(k)


def canon_jer(t, v):
    """the value a correct JER round trip returns: DEFAULT members filled in (root and additions), everything
    else unchanged (BIT STRING octets as given)"""
    k = t['k']
    if k == 'octs':
        return bytes(v)
    if k == 'bits':
        return (bytes(v[0]), v[1])
    if k == 'seqof':
        return [canon_jer(t['elem'], e) for e in v]
    if k == 'seq':
        d = {}
        for mm in t['root'] + (t['ext'] or []):
            if mm['name'] in v:
                d[mm['name']] = canon_jer(mm['t'], v[mm['name']])
            elif mm['default'] is not None:
                d[mm['name']] = canon_jer(mm['t'], mm['default'])
        return d
    if k == 'choice':
        n, inner = v
        for an, at in t['root'] + (t['ext'] or []):
            if an == n:
                return (n, canon_jer(at, inner))
    return v


def err_name(r):
    return 'Foreign' if r[1].startswith('Foreign') else r[1]


def real_dec_answer(t, spec, data):
    """(answer string comparable with `jdec`, raw result)"""
    d = impl.decode(spec, 'A', data)
    if d[0] == 'ok':
        try:
            return 'ok ' + pv(t, d[1]), d
        except Unprintable as e:
            return 'unprintable %s' % e, d
        except Exception as e:   # shapes pv cannot walk (the decoder returned something odd)
            return 'unprintable %r' % (e,), d
    if d[1] in ('Foreign:JSONDecodeError', 'Foreign:UnicodeDecodeError'):
        return 'malformed', d
    return 'err ' + err_name(d), d


# ---------------------------------------------------------------------------------- generation
cases = []          # (t, txt, spec, v)
skipped = Counter()
for i in range(N):
    g = Gen(rng)
    t = g.type()
    txt = module_text([('A', t)])
    st, spec = impl.compile_text(txt, 'jer')
    if st != 'ok':
        skipped['compile ' + st] += 1
        continue
    for j in range(4):
        v = g.value(t)
        cases.append((t, txt, spec, v))

# ---------------------------------------------------------------------------------- E: encode
lines, meta = [], []
for ci, (t, txt, spec, v) in enumerate(cases):
    for ind in INDENTS:
        r = impl.encode(spec, 'A', v, indent=ind)
        lines.append('jenc\t%s\t%s\t%s' % (ty_sx(t), val_sx(t, v), 'none' if ind is None else ind))
        meta.append((ci, ind, r))
ans = m.batch(lines)
bad = 0
cnt = Counter()
for (ci, ind, r), a, l in zip(meta, ans, lines):
    mine = ('ok ' + (r[1].hex() or '-')) if r[0] == 'ok' else 'err ' + err_name(r)
    cnt[mine.split()[0] + ('' if r[0] == 'ok' else ' ' + mine.split()[1])] += 1
    if mine != a:
        bad += 1
        if bad < 6:
            t, txt, spec, v = cases[ci]
            print('ENC MISMATCH indent=%r\n' % (ind,), txt, '\n', repr(v)[:300], '\n impl ', mine[:300], r[2:], '\n model', a[:300])
print('E  enc mismatches %d of %d %s' % (bad, len(lines), dict(cnt)))
total_bad = bad

# ---------------------------------------------------------------------------------- P, D: real outputs
plines, dlines, dmeta = [], [], []
for (ci, ind, r) in meta:
    if r[0] == 'ok':
        t = cases[ci][0]
        plines.append('jparse\t%s' % (r[1].hex() or '-'))
        dlines.append('jdec\t%s\t%s' % (ty_sx(t), r[1].hex() or '-'))
        dmeta.append((ci, ind, r[1]))
pans = m.batch(plines)
badp = sum(1 for a in pans if a != 'ok')
for a, (ci, ind, data) in zip(pans, dmeta):
    if a != 'ok' and badp < 6:
        print('PARSE REJECTS real output', data[:200])
print('P  real outputs rejected by the RFC 8259 reader: %d of %d' % (badp, len(plines)))
total_bad += badp
dans = m.batch(dlines)
bad = 0
viol = 0
for a, (ci, ind, data) in zip(dans, dmeta):
    t, txt, spec, v = cases[ci]
    mine, d = real_dec_answer(t, spec, data)
    if mine != a:
        bad += 1
        if bad < 6:
            print('DEC MISMATCH\n', txt, '\n', data[:300], '\n impl ', mine[:300], d[2:], '\n model', a[:300])
    if d[0] != 'ok' or d[1] != canon_jer(t, v):
        viol += 1
        if viol < 4:
            print('PROPERTY VIOLATION (real code): decode(encode(v)) != canonical v\n', txt, '\n v      ', repr(v)[:300],
                  '\n doc    ', data[:300], '\n decoded', repr(d[1])[:300])
print('D  dec mismatches %d of %d; round-trip violations of the real code: %d' % (bad, len(dlines), viol))
total_bad += bad

# ---------------------------------------------------------------------------------- R: model documents
rlines, rmeta = [], []
for (ci, ind, r), a in zip(meta, ans):
    if a.startswith('ok '):
        h = a[3:]
        t = cases[ci][0]
        rlines.append('jdec\t%s\t%s' % (ty_sx(t), h))
        rmeta.append((ci, bytes.fromhex('' if h == '-' else h)))
rans = m.batch(rlines)
bad = 0
for a, (ci, data) in zip(rans, rmeta):
    t, txt, spec, v = cases[ci]
    mine, d = real_dec_answer(t, spec, data)
    if mine != a:
        bad += 1
        if bad < 6:
            print('RDEC MISMATCH\n', txt, '\n', data[:300], '\n impl ', mine[:300], '\n model', a[:300])
print('R  real decode of model documents: mismatches %d of %d' % (bad, len(rlines)))
total_bad += bad

# ---------------------------------------------------------------------------------- M: mutated documents
WS = [' ', '\t', '\n', '\r', '  ', '\n\t ', '']


def esc_char(r, c):
    o = ord(c)
    x = r.random()
    if c == '"':
        return '\\"' if x < 0.8 else '\\u0022'
    if c == '\\':
        return '\\\\' if x < 0.8 else '\\u005C'
    if o < 0x20:
        short = {'\b': '\\b', '\f': '\\f', '\n': '\\n', '\r': '\\r', '\t': '\\t'}
        if c in short and x < 0.6:
            return short[c]
        return '\\u%04X' % o if x < 0.8 else '\\u%04x' % o
    if c == '/':
        return '\\/' if x < 0.5 else '/'
    if x < 0.6:
        return c                               # raw (UTF-8 in the octets)
    if o >= 0x10000:
        o -= 0x10000
        f = '\\u%04X\\u%04x' if x < 0.8 else '\\u%04x\\u%04X'
        return f % (0xd800 + (o >> 10), 0xdc00 + (o & 0x3ff))
    return ('\\u%04X' if x < 0.8 else '\\u%04x') % o


def ser(r, j, p_ws):
    """an RFC 8259 serialisation of j in a random style; objects are lists of pairs (duplicates possible)"""
    def ws():
        return r.choice(WS) if r.random() < p_ws else ''
    if j is None:
        return 'null'
    if j is True:
        return 'true'
    if j is False:
        return 'false'
    if isinstance(j, int):
        return str(j)
    if isinstance(j, float):
        return repr(j)
    if isinstance(j, str):
        return '"' + ''.join(esc_char(r, c) for c in j) + '"'
    if isinstance(j, Raw):
        return j.text
    if isinstance(j, list):
        return '[' + ws() + (ws() + ',' + ws()).join(ser(r, e, p_ws) for e in j) + ws() + ']'
    if isinstance(j, Obj):
        return '{' + ws() + (ws() + ',' + ws()).join(ser(r, k, p_ws) + ws() + ':' + ws() + ser(r, e, p_ws) for k, e in j.pairs) + ws() + '}'
    raise ValueError(j)


class Obj:
    def __init__(self, pairs):
        self.pairs = list(pairs)


class Raw:
    def __init__(self, text):
        self.text = text


def load(text):
    return json.loads(text, object_pairs_hook=Obj)


def nodes(j, acc):
    acc.append(j)
    if isinstance(j, list):
        for e in j:
            nodes(e, acc)
    elif isinstance(j, Obj):
        for _, e in j.pairs:
            nodes(e, acc)
    return acc


NAMES = Gen.POOL + ['e1', 'x2', 'zz', 'value', 'length', '', 'A']
SCALARS = [None, True, False, 0, -1, 7, 2 ** 70, '', 'zz', 'a', 'e1', 'FF', 'ff0', 'fF', 'é', '0g', [], Obj([]), [1], ['a'],
           Raw('1.5'), Raw('1e2'), Raw('-0'), Raw('-0.0'), Raw('1E+2'), Raw('0e0')]


def mutate_tree(r, j):
    """replace / extend one random node"""
    def rec(x, target):
        if x is target:
            return new(x)
        if isinstance(x, list):
            return [rec(e, target) for e in x]
        if isinstance(x, Obj):
            return Obj([(k, rec(e, target)) for k, e in x.pairs])
        return x

    def new(x):
        c = r.random()
        if isinstance(x, Obj) and c < 0.75:
            p = list(x.pairs)
            y = r.random()
            if y < 0.3:
                p.insert(r.randint(0, len(p)), (r.choice(NAMES), r.choice(SCALARS)))      # unknown / duplicate member
            elif y < 0.5 and p:
                k, e = r.choice(p)
                p.insert(r.randint(0, len(p)), (k, r.choice(SCALARS + [e])))              # duplicate name
            elif y < 0.7 and p:
                del p[r.randrange(len(p))]                                               # member missing
            elif y < 0.85 and p:
                i = r.randrange(len(p))
                p[i] = (r.choice(NAMES), p[i][1])                                        # renamed
            else:
                r.shuffle(p)
            return Obj(p)
        if isinstance(x, list) and c < 0.6:
            p = list(x)
            if p and r.random() < 0.5:
                del p[r.randrange(len(p))]
            else:
                p.insert(r.randint(0, len(p)), r.choice(SCALARS))
            return p
        if isinstance(x, str) and c < 0.5:
            y = r.random()
            if y < 0.3:
                return x.lower()
            if y < 0.5:
                return x + r.choice(['0', 'G', 'é', 'a'])
            if y < 0.7:
                return x[:-1]
            return r.choice(NAMES)
        return r.choice(SCALARS)
    ns = nodes(j, [])
    return rec(j, r.choice(ns))


def corrupt(r, text):
    """textual damage; most results are not JSON"""
    if not text:
        return text
    y = r.random()
    i = r.randrange(len(text))
    if y < 0.25:
        return text[:i] + text[i + 1:]
    if y < 0.5:
        return text[:i] + r.choice(list('{}[],:"\\ \n0-.eEtfnu\x00\x1f/') + ['\\u12', '\\ud800', '\\udc00', 'NaN', 'Infinity', '﻿', '01', '+1', "'"]) + text[i:]
    if y < 0.7:
        return text[:i]
    if y < 0.85:
        return text + r.choice(['x', ' 1', ',', '}', ']', ' \n', '\x00', '\x0c'])
    return text[:i] + r.choice(list('{}[],:"\\')) + text[i + 1:]


LONE = re.compile(r'\\u[dD][89a-fA-F][0-9a-fA-F]{2}')


def python_lax(text):
    """json.loads accepts, RFC 8259 (strict reading) does not: NaN / Infinity literals, lone surrogate escapes"""
    return 'NaN' in text or 'Infinity' in text or bool(LONE.search(text))


mlines, mmeta = [], []
seen = set()
for (ci, ind, data) in dmeta:
    if ind not in (None, 1):
        continue
    t, txt, spec, v = cases[ci]
    if (ci, ind) in seen:
        continue
    seen.add((ci, ind))
    base = data.decode('utf-8')
    try:
        tree = load(base)
    except Exception:
        continue
    variants = []
    variants.append(('style', ser(rng, tree, 0.5).encode('utf-8')))
    for _ in range(2):
        try:
            variants.append(('tree', ser(rng, mutate_tree(rng, tree), 0.2).encode('utf-8')))
        except Exception as e:
            pass
    variants.append(('text', corrupt(rng, base).encode('utf-8', 'surrogatepass')))
    if rng.random() < 0.1:
        variants.append(('octets', data[:rng.randrange(len(data) + 1)] + bytes([rng.choice([0x80, 0xc0, 0xff, 0xed, 0xf4])]) + data[rng.randrange(len(data) + 1):]))
    for kind, doc in variants:
        if len(doc) > 20000:
            continue
        mlines.append('jdec\t%s\t%s' % (ty_sx(t), doc.hex() or '-'))
        mmeta.append((ci, kind, doc))
mans = m.batch(mlines)
bad = 0
mc = Counter()
for a, (ci, kind, doc) in zip(mans, mmeta):
    t, txt, spec, v = cases[ci]
    mine, d = real_dec_answer(t, spec, doc)
    if mine == a:
        mc[kind + ' ' + ' '.join(a.split()[:2] if a.startswith('err') else a.split()[:1])] += 1
        continue
    if a == 'err unmodelled':
        mc[kind + ' unmodelled (float / bit length: explained)'] += 1
        continue
    if mine.startswith('unprintable'):
        mc[kind + ' unprintable (explained)'] += 1
        continue
    if a == 'malformed' and mine != 'malformed' and python_lax(doc.decode('utf-8', 'replace')):
        mc[kind + ' json.loads laxity (explained)'] += 1
        continue
    bad += 1
    if bad < 8:
        print('MUT MISMATCH (%s)\n' % kind, txt, '\n', doc[:300], '\n impl ', mine[:300], d[2:], '\n model', a[:300])
print('M  mutated documents: mismatches %d of %d' % (bad, len(mlines)))
for k in sorted(mc):
    print('     %-60s %d' % (k, mc[k]))
total_bad += bad
print('TOTAL unexplained mismatches: %d' % total_bad)
