"""Re-serialise encoder outputs in other BER forms and compare decoders: real asn1tools vs Lean model.

usage: compare_ber_variants.py <seed> <ntypes> [variants|mutate] [ber|der]

variants (default, BER only): every encoding produced by the real BER encoder is parsed with the small
    TLV library below and written again, type directed, in other *valid* X.690 BER forms:
      - padded long-form lengths (81 05, 82 00 05, ...),
      - indefinite length + end-of-contents on constructed encodings,
      - OCTET STRING / BIT STRING / character strings as constructed encodings made of segments
        (possibly nested, possibly zero segments),
      - random mixtures of all of these ('mix'),
    and `decode_with_length` of the real BER codec is compared with the model's
    `BerCodec.decodeWithLength` (value and octet count, or error class).  It is also counted how often
    the real decoder does not give back the original value on such a valid variant (deviations from
    X.690, reported by kind).
mutate: invalid / unusual inputs (truncation, byte flips, inserted / removed octets, swapped or
    duplicated or dropped members, trailing octets) for the chosen codec, same comparison.
"""
import os
import random
import sys
from collections import Counter

sys.path.insert(0, os.path.dirname(os.path.dirname(os.path.abspath(__file__))))
from harness.gen import Gen, module_text, ty_sx, val_sx, canon_py   # noqa: E402
from harness import impl, core                                      # noqa: E402


# ------------------------------------------------------------------------------ TLV library
class Node:
    """One BER encoding: identifier octets, constructed flag, contents (bytes) or children."""

    def __init__(self, tag, children=None, content=b''):
        self.tag = bytes(tag)
        self.children = children          # list of Node, or None for primitive
        self.content = bytes(content)

    @property
    def constructed(self):
        return bool(self.tag[0] & 0x20)


def parse_tag(data, pos):
    start = pos
    b = data[pos]
    pos += 1
    if b & 0x1f == 0x1f:
        while data[pos] & 0x80:
            pos += 1
        pos += 1
    return data[start:pos], pos


def parse_len(data, pos):
    b = data[pos]
    pos += 1
    if b < 0x80:
        return b, pos
    n = b & 0x7f
    assert n > 0, 'definite lengths only'
    return int.from_bytes(data[pos:pos + n], 'big'), pos + n


def parse(data, pos=0):
    """definite-length TLV at data[pos:] -> (Node, end position)"""
    tag, pos = parse_tag(data, pos)
    length, pos = parse_len(data, pos)
    end = pos + length
    assert end <= len(data)
    if tag[0] & 0x20:
        children = []
        while pos < end:
            child, pos = parse(data, pos)
            children.append(child)
        assert pos == end
        return Node(tag, children), end
    return Node(tag, None, data[pos:end]), end


def enc_len(n, pad=0):
    if pad == 0 and n < 0x80:
        return bytes([n])
    body = n.to_bytes(max(1, (n.bit_length() + 7) // 8), 'big')
    body = b'\x00' * pad + body
    return bytes([0x80 | len(body)]) + body


class Forms:
    """Which alternative forms to use; every probability is per node."""

    def __init__(self, pad=0.0, indef=0.0, seg=0.0, nest=0.0):
        self.pad, self.indef, self.seg, self.nest = pad, indef, seg, nest


def frame(tag, body, constructed, rng, f):
    """tag + length + body in one of the length forms allowed for it"""
    if constructed and rng.random() < f.indef:
        return tag + b'\x80' + body + b'\x00\x00'
    pad = rng.choice([0, 1, 1, 2, 3]) if rng.random() < f.pad else 0
    return tag + enc_len(len(body), pad) + body


def with_constructed(tag, on):
    return bytes([(tag[0] | 0x20) if on else (tag[0] & ~0x20)]) + tag[1:]


def split_points(n, rng):
    k = rng.choice([0, 1, 2, 2, 3, 5]) if n else rng.choice([0, 1, 2])
    return sorted(rng.randint(0, n) for _ in range(k))


def segments(univ, chunks, rng, f, depth=0):
    """chunks: list of primitive contents; -> concatenated segment encodings (UNIVERSAL tag `univ`),
    some of them nested constructed ones"""
    out = b''
    i = 0
    while i < len(chunks):
        if depth < 3 and rng.random() < f.nest:
            j = rng.randint(i, len(chunks))          # nested constructed segment holding chunks[i:j]
            body = segments(univ, chunks[i:j], rng, f, depth + 1)
            out += frame(bytes([univ | 0x20]), body, True, rng, f)
            i = j                                     # j == i: an empty constructed segment
        else:
            out += frame(bytes([univ]), chunks[i], False, rng, f)
            i += 1
    return out


def string_variant(kind, tag, content, rng, f):
    """OCTET STRING / character string (kind 'o') or BIT STRING (kind 'b') with primitive contents
    `content` under identifier `tag`"""
    if rng.random() >= f.seg:
        return frame(with_constructed(tag, False), content, False, rng, f)
    if kind == 'o':
        pts = split_points(len(content), rng)
        chunks = [content[a:b] for a, b in zip([0] + pts, pts + [len(content)])]
        if not content and rng.random() < 0.5:
            chunks = []
        body = segments(0x04, chunks, rng, f)
    else:
        unused, data = content[0], content[1:]
        pts = split_points(len(data), rng)
        parts = [data[a:b] for a, b in zip([0] + pts, pts + [len(data)])]
        # X.690 8.6.4: only the last segment may have unused bits
        if len(data) == 0:
            parts = [b''] if rng.random() < 0.5 else []
        elif parts and len(parts[-1]) == 0:
            parts = [p for p in parts if p] or [data]
        chunks = [b'\x00' + p for p in parts[:-1]] + ([bytes([unused]) + parts[-1]] if parts else [])
        body = segments(0x03, chunks, rng, f)
    return frame(with_constructed(tag, True), body, True, rng, f)


def ctx_number(tag):
    if tag[0] & 0x1f != 0x1f:
        return tag[0] & 0x1f
    n = 0
    for b in tag[1:]:
        n = (n << 7) | (b & 0x7f)
    return n


def reser(t, node, bare, rng, f):
    """type-directed re-serialisation of `node` (an encoding of type `t`; `bare` = the type carries
    its own UNIVERSAL tag / is an untagged CHOICE, otherwise it is a member with tag [i])"""
    k = t['k']
    if k in ('octs', 'str'):
        return string_variant('o', node.tag, node.content, rng, f)
    if k == 'bits':
        return string_variant('b', node.tag, node.content, rng, f)
    if k in ('bool', 'null', 'int', 'enum'):
        return frame(node.tag, node.content, False, rng, f)
    if k == 'seq':
        members = t['root'] + (t['ext'] or [])
        body = b''
        for child in node.children:
            m = members[ctx_number(child.tag)]
            body += reser(m['t'], child, False, rng, f)
        return frame(node.tag, body, True, rng, f)
    if k == 'seqof':
        body = b''.join(reser(t['elem'], child, True, rng, f) for child in node.children)
        return frame(node.tag, body, True, rng, f)
    if k == 'choice':
        alts = t['root'] + (t['ext'] or [])
        if bare:
            return reser(alts[ctx_number(node.tag)][1], node, False, rng, f)
        (inner,) = node.children                      # EXPLICIT wrapper
        body = reser(alts[ctx_number(inner.tag)][1], inner, False, rng, f)
        return frame(node.tag, body, True, rng, f)
    raise ValueError(k)


KINDS = {
    'padlen': Forms(pad=1.0),
    'indef': Forms(indef=1.0),
    'segments': Forms(seg=1.0, nest=0.25),
    'mix': Forms(pad=0.3, indef=0.4, seg=0.5, nest=0.2),
}


# ------------------------------------------------------------------------------ mutations
def mutate(data, node, rng):
    x = rng.random()
    b = bytearray(data)
    if x < 0.2 and len(b) > 1:
        return bytes(b[:rng.randrange(len(b))]), 'truncate'
    if x < 0.4 and b:
        i = rng.randrange(len(b))
        b[i] ^= 1 << rng.randrange(8)
        return bytes(b), 'bitflip'
    if x < 0.5 and b:
        i = rng.randrange(len(b))
        b[i] = rng.choice([0, 0x80, 0x81, 0xff, 0x30, 0x1f, 0x9f, 0xa0, rng.randrange(256)])
        return bytes(b), 'setbyte'
    if x < 0.58:
        i = rng.randrange(len(b) + 1)
        return bytes(b[:i]) + bytes(rng.randrange(256) for _ in range(rng.choice([1, 2, 3]))) + bytes(b[i:]), 'insert'
    if x < 0.66 and len(b) > 2:
        i = rng.randrange(len(b))
        return bytes(b[:i] + b[i + 1:]), 'delete'
    if x < 0.70:
        return data + bytes(rng.choice([0, 0, 5, 0x30, rng.randrange(256)]) for _ in range(rng.choice([1, 2, 3, 4]))), 'trailing'
    # structural: reorder / duplicate / drop children of a random constructed node, or stretch / shrink a length
    cons = []

    def walk(n):
        if n.children is not None:
            cons.append(n)
            for c in n.children:
                walk(c)
    if node is not None:
        walk(node)
    if not cons:
        return data + b'\x00', 'trailing'
    target = rng.choice(cons)
    op = rng.choice(['shuffle', 'dup', 'drop', 'longer', 'shorter', 'indef-noeoc', 'indef'])

    def ser(n):
        if n.children is None:
            return n.tag + enc_len(len(n.content)) + n.content
        kids = list(n.children)
        body_of = lambda ks: b''.join(ser(c) for c in ks)
        if n is target:
            if op == 'shuffle':
                rng.shuffle(kids)
            elif op == 'dup' and kids:
                kids.insert(rng.randrange(len(kids) + 1), rng.choice(kids))
            elif op == 'drop' and kids:
                kids.pop(rng.randrange(len(kids)))
            body = body_of(kids)
            if op == 'longer':
                return n.tag + enc_len(len(body) + rng.choice([1, 2, 3])) + body
            if op == 'shorter' and body:
                return n.tag + enc_len(len(body) - rng.choice([1, 2, min(3, len(body))]) if len(body) > 3 else 0) + body
            if op == 'indef-noeoc':
                return n.tag + b'\x80' + body
            if op == 'indef':
                return n.tag + b'\x80' + body + b'\x00\x00'
            return n.tag + enc_len(len(body)) + body
        body = body_of(kids)
        return n.tag + enc_len(len(body)) + body
    return ser(node), op


# ------------------------------------------------------------------------------ driver
def impl_decwl(spec, t, data, limit):
    try:
        with core.time_limit(limit):
            v, n = spec.decode_with_length('A', data)
    except BaseException as e:
        if isinstance(e, (KeyboardInterrupt, SystemExit)):
            raise
        c = impl.classify(e)
        return 'err ' + ('Foreign' if c.startswith('Foreign') else c), None
    try:
        return 'ok %s %d' % (val_sx(t, v), n), v
    except Exception:
        return 'ok ?? %r %d' % (v, n), v


def main():
    seed = int(sys.argv[1]) if len(sys.argv) > 1 else 1
    ntypes = int(sys.argv[2]) if len(sys.argv) > 2 else 300
    mode = sys.argv[3] if len(sys.argv) > 3 else 'variants'
    codec = sys.argv[4] if len(sys.argv) > 4 else 'ber'
    if mode == 'variants':
        assert codec == 'ber'
    rng = random.Random(seed)
    model = core.Model()
    cases = []          # (t, txt, value, kind, data)
    for _ in range(ntypes):
        g = Gen(rng)
        t = g.type()
        txt = module_text([('A', t)])
        st, spec = impl.compile_text(txt, codec)
        if st != 'ok':
            print('compile', st, spec)
            continue
        for _ in range(3):
            v = g.value(t)
            r = impl.encode(spec, 'A', v)
            if r[0] != 'ok':
                continue
            data = r[1]
            node, end = parse(data)
            assert end == len(data)
            if mode == 'variants':
                seen = {data}
                for kind, forms in KINDS.items():
                    for _ in range(3 if kind == 'mix' else 1):
                        alt = reser(t, node, True, rng, forms)
                        if alt not in seen:
                            seen.add(alt)
                            cases.append((t, txt, v, kind, alt))
            else:
                for _ in range(4):
                    alt, kind = mutate(data, node, rng)
                    if rng.random() < 0.2:
                        alt, kind2 = mutate(alt, None, rng)
                        kind = kind + '+' + kind2
                    cases.append((t, txt, v, kind, alt))
    lines = ['decwl\t%s\t%s\t%s' % (codec, ty_sx(t), data.hex() or '-') for t, txt, v, kind, data in cases]
    answers = model.batch(lines)
    bad = 0
    unmodelled = Counter()
    outcome = Counter()
    deviation = Counter()
    examples = {}
    for (t, txt, v, kind, data), a in zip(cases, answers):
        st, spec = impl.compile_text(txt, codec)
        mine, dv = impl_decwl(spec, t, data, 0.4 if codec == 'der' else 5)
        outcome[kind.split('+')[0] + ' ' + ' '.join(mine.split()[:2] if mine.startswith('err') else ['ok'])] += 1
        if a == 'err unmodelled':
            unmodelled[kind.split('+')[0] + ' impl: ' + ' '.join(mine.split()[:2] if mine.startswith('err') else ['ok'])] += 1
            if len(examples) < 40:
                examples.setdefault('unmodelled ' + mine[:15], (txt, data.hex(), mine[:200]))
            continue
        if mine != a:
            bad += 1
            if bad < 6:
                print('MISMATCH', kind, '\n', txt, '\n', v, data.hex(), '\n impl ', mine[:300], '\n model', a[:300], '\n', ty_sx(t))
        if mode == 'variants':
            # is the valid variant understood as the original value (and completely consumed)?
            want = canon_py(t, v)
            ok = mine.startswith('ok') and canon_py(t, dv) == want and mine.endswith(' %d' % len(data))
            if not ok:
                deviation[kind + ' -> ' + ' '.join(mine.split()[:2] if mine.startswith('err') else ['ok (other value/length)'])] += 1
                examples.setdefault('deviation ' + kind + ' ' + mine[:12], (txt, data.hex(), mine[:200]))
    print('%s %s: cases %d, mismatches %d, unmodelled %d' % (codec, mode, len(cases), bad, sum(unmodelled.values())))
    print(' outcomes', dict(sorted(outcome.items())))
    if unmodelled:
        print(' unmodelled', dict(unmodelled))
    if mode == 'variants':
        print(' valid variants not decoded to the original value by the real decoder:', dict(deviation) or 0)
    if '-v' in sys.argv:
        for k, (txt, hx, mine) in examples.items():
            print('--', k, '\n', txt, hx, '\n', mine)


if __name__ == '__main__':
    main()
