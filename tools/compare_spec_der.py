"""Validate the S-level X.690 model against the real asn1tools.

usage: compare_spec_der.py <seed> <ntypes> [enc|variants|strict]

enc (default): `X690.derEncode` (driver op `spec der`) vs `asn1tools.compile_string(text, 'der').encode`
    on generated types/values.  Where the model reports a named deviation (`dev=...`) a difference
    is expected and counted separately; everywhere else bytes / error class must agree
    (the spec answers EncodeError where the real code raises any EncodeError).
variants: every BER variant produced by tools/compare_ber_variants.py (padded lengths, indefinite
    lengths, constructed / nested string segments, mixtures) of a real BER encoding must be accepted
    by `X690.berDecodeRef` (driver op `refdec`) with the canonical form of the original value, and
    so must the original encoding.
strict: the same variants through `X690.berDecodeRefStrict` (driver op `refdecs`) and through the real
    BER decoder: the strict reference decoder must accept a variant (with the original value) exactly
    when the real decoder returns the original value and consumes everything, i.e. the two named
    deviations (dirty unused bits, indefinite extensible SEQUENCE without addition) are the only
    differences between the real decoder and the reference decoder on valid variants.
"""
import os
import random
import sys
from collections import Counter

sys.path.insert(0, os.path.dirname(os.path.dirname(os.path.abspath(__file__))))
from harness.gen import Gen, module_text, ty_sx, val_sx, canon_py   # noqa: E402
from harness import impl, core                                      # noqa: E402
import importlib.util                                               # noqa: E402
spec_ = importlib.util.spec_from_file_location('cbv', os.path.join(os.path.dirname(os.path.abspath(__file__)), 'compare_ber_variants.py'))
cbv = importlib.util.module_from_spec(spec_)
spec_.loader.exec_module(cbv)


def main():
    seed = int(sys.argv[1]) if len(sys.argv) > 1 else 1
    ntypes = int(sys.argv[2]) if len(sys.argv) > 2 else 300
    mode = sys.argv[3] if len(sys.argv) > 3 else 'enc'
    rng = random.Random(seed)
    model = core.Model()
    if mode == 'enc':
        cases = []
        for _ in range(ntypes):
            g = Gen(rng)
            t = g.type()
            txt = module_text([('A', t)])
            st, spec = impl.compile_text(txt, 'der')
            if st != 'ok':
                print('compile', st, spec)
                continue
            for _ in range(4):
                v = g.value(t)
                cases.append((t, txt, v, impl.encode(spec, 'A', v)))
        lines = ['spec\tder\t%s\t%s' % (ty_sx(t), val_sx(t, v)) for t, txt, v, r in cases]
        answers = model.batch(lines)
        cnt = Counter()
        bad = 0
        for (t, txt, v, r), a, l in zip(cases, answers, lines):
            dev = ' dev=' in a or ' untyped' in a
            a0 = a.split(' dev=')[0].split(' untyped')[0]
            if r[0] == 'ok':
                mine = 'ok ' + (r[1].hex() or '-')
            else:
                mine = 'err ' + ('Foreign' if r[1].startswith('Foreign') else r[1])
            key = ('untyped ' if ' untyped' in a else 'dev ' if dev else '') + ('agree' if mine == a0 else 'differ') + ' ' + mine.split()[0]
            cnt[key] += 1
            if mine != a0 and not dev:
                bad += 1
                if bad < 6:
                    print('MISMATCH\n', txt[:600], '\n', str(v)[:300], '\n impl', mine[:200], r[2:], '\n spec', a[:200], '\n', l[:300])
        print('spec der enc: cases %d, unexplained mismatches %d, %s' % (len(cases), bad, dict(sorted(cnt.items()))))
    else:
        cases = []
        for _ in range(ntypes):
            g = Gen(rng)
            t = g.type()
            txt = module_text([('A', t)])
            st, spec = impl.compile_text(txt, 'ber')
            if st != 'ok':
                print('compile', st, spec)
                continue
            for _ in range(3):
                v = g.value(t)
                r = impl.encode(spec, 'A', v)
                if r[0] != 'ok':
                    continue
                data = r[1]
                node, end = cbv.parse(data)
                assert end == len(data)
                cases.append((t, txt, v, 'orig', data))
                seen = {data}
                for kind, forms in cbv.KINDS.items():
                    for _ in range(3 if kind == 'mix' else 1):
                        alt = cbv.reser(t, node, True, rng, forms)
                        if alt not in seen:
                            seen.add(alt)
                            cases.append((t, txt, v, kind, alt))
        lines = ['%s\t%s\t%s' % ('refdecs' if mode == 'strict' else 'refdec', ty_sx(t), data.hex() or '-') for t, txt, v, kind, data in cases]
        answers = model.batch(lines)
        typed = model.batch(['rtder\tber\t%s\t%s' % (ty_sx(t), val_sx(t, v)) for t, txt, v, kind, data in cases])
        cnt = Counter()
        bad = 0
        for (t, txt, v, kind, data), a, ty in zip(cases, answers, typed):
            if 'hasType=T' not in ty:
                cnt['untyped ' + ('accepted' if a.startswith('ok') else 'rejected')] += 1
                continue
            try:
                want = 'ok ' + val_sx(t, canon_py(t, v))
            except Exception as e:
                want = 'ok ?? %r' % (e,)
            ok = a == want
            if mode == 'strict':
                st, spec = impl.compile_text(txt, 'ber')
                mine, dv = cbv.impl_decwl(spec, t, data, 5)
                real_ok = mine.startswith('ok') and canon_py(t, dv) == canon_py(t, v) and mine.endswith(' %d' % len(data))
                cnt[kind + (' both accept' if ok and real_ok else ' both reject' if not ok and not real_ok else ' strict accepts, real does not' if ok else ' real accepts, strict does not')] += 1
                if ok != real_ok:
                    bad += 1
                    if bad < 6:
                        print('STRICT', kind, '\n', txt[:600], '\n', str(v)[:300], data.hex()[:300], '\n real', mine[:200], '\n strict', a[:200])
                continue
            cnt[kind + (' ok' if ok else ' BAD')] += 1
            if not ok:
                bad += 1
                if bad < 6:
                    print('REFDEC', kind, '\n', txt[:600], '\n', str(v)[:300], data.hex()[:300], '\n want', want[:300], '\n ref ', a[:300], '\n', ty_sx(t)[:400])
        print('%s variants: cases %d, %s %d, %s' % ('refdecs' if mode == 'strict' else 'refdec', len(cases), 'disagreements with the real decoder' if mode == 'strict' else 'not accepted with the original value', bad, dict(sorted(cnt.items()))))


if __name__ == '__main__':
    main()
